package props

import (
	"fmt"
	"go/token"
	"go/types"
	"sort"
	"strings"

	"golang.org/x/tools/go/ssa"

	"gogucheck/core"
	"gogucheck/path"
)

func init() {
	register(&Check{
		ID: "C03",
		Explanation: "Conservation and structure rules over heap/heap.go and heap/heapsort.go (engines E2/E3/E4/E7). PV4 FromSlice, Convert, Sort, moveUp and moveDown move elements only through swap (a crossed pair of stores): they permute the array, so Convert/FromSlice keep the elements and Sort returns a permutation; Push appends each argument exactly once and sifts the new last slot up; Pop reads the root under the non-empty guard, moves the last element to the root, shortens by exactly one and sifts the root down, the empty path writes nothing; " +
			"Delete shortens by exactly one only where getIndex found the value, reports absence otherwise without writing; EF1 Merge builds a fresh heap by Push of the elements and writes neither input, EF2 Meld stores nil into both inputs on every path; Convert stores the new comparator on every path before any re-sift; AG1 no ordering decision on elements is taken other than through the comparator; " +
			"AG9 the implicit-tree index maps are consistent: parent(leftChild(i)) = parent(rightChild(i)) = i as linear forms, FromSlice's inlined children equal them, moveDown prefers the child the comparator prefers among left (vs. the node) and right (vs. the better of the two) and recurses at the slot it swapped with, moveUp compares with and moves to parent(i); BD1 a re-sift bound never provably exceeds the live length; RS1 the slot that received a foreign element is the slot re-sifted; SI1 no state beyond {mu, comp, data}.",
		Assumptions: []string{"go/ssa faithful to the source", "the comparator is a strict ordering", "locking is C01/C02"},
		NotDecided:  []string{"the heap-order invariant itself after arbitrary histories (index arithmetic over element values)", "Sort's direction"},
		Run:         runC03,
	})
}

// linForm: v = (a*sym + b) / d over integers (d = 1 unless a final division).
type lin struct{ a, b, d int64 }

func linForm(v ssa.Value, sym ssa.Value) (lin, bool) {
	if v == sym {
		return lin{1, 0, 1}, true
	}
	if k, ok := path.IntConst(v); ok {
		return lin{0, k, 1}, true
	}
	bo, ok := v.(*ssa.BinOp)
	if !ok {
		return lin{}, false
	}
	x, okx := linForm(bo.X, sym)
	y, oky := linForm(bo.Y, sym)
	if !okx || !oky || x.d != 1 && bo.Op != token.QUO {
		return lin{}, false
	}
	switch bo.Op {
	case token.ADD:
		if y.d != 1 {
			return lin{}, false
		}
		return lin{x.a + y.a, x.b + y.b, 1}, true
	case token.SUB:
		if y.d != 1 {
			return lin{}, false
		}
		return lin{x.a - y.a, x.b - y.b, 1}, true
	case token.MUL:
		if x.a == 0 && x.d == 1 && y.d == 1 {
			return lin{x.b * y.a, x.b * y.b, 1}, true
		}
		if y.a == 0 && y.d == 1 {
			return lin{x.a * y.b, x.b * y.b, 1}, true
		}
	case token.QUO:
		if y.a == 0 && y.d == 1 && y.b > 0 && x.d == 1 {
			return lin{x.a, x.b, y.b}, true
		}
	}
	return lin{}, false
}

func runC03(p *core.Program, r *core.Report) {
	c := rc{p, r}
	noSingledOutValue(c, []string{"heap/heap.go", "heap/heapsort.go"}, nil)
	noAnswerBeforeTheScan(c, "heap.FromSlice", "heap.Sort")
	copiesWholeSlice(c, "heap.(*Heap).GetValues", "Heap", "data")
	resultUntouchedAfterTheScan(c, "heap.FromSlice", "heap.Sort")
	const H = "heap.(*Heap)."
	fPush, fPop, fPeek, fDelete, fConvert, fMerge, fMeld, fSize, fEmpty, fClear := c.fn(H+"Push"), c.fn(H+"Pop"), c.fn(H+"Peek"), c.fn(H+"Delete"), c.fn(H+"Convert"), c.fn(H+"Merge"), c.fn(H+"Meld"), c.fn(H+"Size"), c.fn(H+"IsEmpty"), c.fn(H+"Clear")
	fFromSlice, fSort, fNew := c.fn("heap.FromSlice"), c.fn("heap.Sort"), c.fn("heap.NewHeap")
	for _, f := range []*ssa.Function{fPush, fPop, fPeek, fDelete, fConvert, fMerge, fMeld, fSize, fEmpty, fClear, fFromSlice, fSort, fNew} {
		if f == nil {
			return
		}
	}
	moveUp, moveDown, left, right, parent, swapFn, getIndex, peek, size := c.helper(H+"moveUp"), c.helper(H+"moveDown"), c.helper(H+"leftChild"), c.helper(H+"rightChild"), c.helper(H+"parent"), c.helper("heap.swap"), c.helper(H+"getIndex"), c.helper(H+"peek"), c.helper(H+"size")
	all := append(p.FuncsInFiles("heap/heap.go"), p.FuncsInFiles("heap/heapsort.go")...)
	for _, f := range all {
		r.Functions[p.FuncName(f)] = true
	}
	stateInventory(c, "heap", "Heap", []string{"mu", "comp", "data"}, all)

	isDataLoad := func(v ssa.Value) bool { return isLoadOfField(v, "Heap", "data") }
	dataStores := func(fn *ssa.Function) []*ssa.Store {
		var out []*ssa.Store
		for _, st := range fieldStores([]*ssa.Function{fn}, "Heap", "data") {
			if _, fresh := st.Addr.(*ssa.FieldAddr).X.(*ssa.Alloc); fresh {
				continue // initialisation of a new Heap literal
			}
			out = append(out, st)
		}
		return out
	}
	// element stores: Store through IndexAddr of a []T (data slice or the data parameter)
	elemStores := func(fn *ssa.Function) []*ssa.Store {
		var out []*ssa.Store
		for _, in := range path.Instrs(fn) {
			st, ok := in.(*ssa.Store)
			if !ok {
				continue
			}
			ia, ok := st.Addr.(*ssa.IndexAddr)
			if !ok {
				continue
			}
			if _, isAl := ia.X.(*ssa.Alloc); isAl {
				continue
			}
			out = append(out, st)
		}
		return out
	}

	// ---------------- swap is a transposition
	if swapFn != nil {
		okSwap, n := swapOnly(swapFn, swapFn.Params[0])
		c.ob("PV4", p.FuncName(swapFn), "exchanges two cells", c.fpos(swapFn), okSwap && n == 2, "swap must be the crossed pair data[i], data[j] = data[j], data[i]")
	}
	// ---------------- PV4 permutation-only functions
	for _, fn := range []*ssa.Function{fFromSlice, fConvert, fSort, moveUp, moveDown} {
		if fn == nil {
			continue
		}
		fname := p.FuncName(fn)
		es := elemStores(fn)
		c.ob("PV4", fname, "no direct element store", c.fpos(fn), len(es) == 0, "elements are moved by a direct store instead of a swap: an element can be duplicated or lost")
		apps := appendsOf(fn)
		c.ob("PV4", fname, "no append", c.fpos(fn), len(apps) == 0, "a function that must only permute the array appends to it")
		nSl := 0
		for _, st := range dataStores(fn) {
			_ = st
			nSl++
		}
		c.ob("PV4", fname, "array not replaced", c.fpos(fn), nSl == 0, "a function that must only permute the array replaces h.data")
		nSw := 0
		if swapFn != nil {
			nSw = len(callsTo(fn, swapFn))
		}
		c.ob("PV4", fname, "moves elements through swap", c.fpos(fn), nSw >= 1 || fn == fConvert, "no swap call found: the function cannot restore the heap order")
	}

	// ---------------- Push
	{
		fn := fPush
		fname := p.FuncName(fn)
		x := newPathCtx(p)
		val := ssa.Value(fn.Params[1])
		reads := elemReads(fn, val)
		okScan := len(reads) == 1
		var rd elemRead
		if okScan {
			rd = reads[0]
			sc, ok := classifyScan(x, fn, rd.idx, val)
			okScan = ok && sc.dir == +1
		}
		c.ob("PT5", fname, "every argument is pushed, in order", c.fpos(fn), okScan, "Push must range over all its arguments")
		apps := appendsOf(fn)
		c.ob("PT1", fname, "one append per argument", c.fpos(fn), len(apps) == 1, fmt.Sprintf("expected one append site, found %d", len(apps)))
		for _, ap := range apps {
			v, ok := singleElemSlice(ap.Call.Args[1])
			c.ob("PV1", fname, "appended value is the argument just read", p.InstrPos(ap), ok && okScan && v == ssa.Value(rd.load) && isDataLoad(ap.Call.Args[0]), "Push must append exactly the current argument to h.data")
			stored := false
			for _, st := range dataStores(fn) {
				if st.Val == ssa.Value(ap) {
					stored = true
				}
			}
			c.ob("PV1", fname, "extended array stored back", p.InstrPos(ap), stored && loopDepth(fn, ap.Block()) == 1, "the extended array must be stored into h.data once per argument")
			// sift the new last slot up
			okUp := false
			if moveUp != nil {
				for _, call := range callsTo(fn, moveUp) {
					if x.path(call.Common().Args[1]) == "(len(h.data)-1)" && ap.Block().Dominates(call.Block()) {
						okUp = true
					}
				}
			}
			c.ob("AG9", fname, "new last slot sifted up", p.InstrPos(ap), okUp, "after the append Push must call moveUp(size()-1)")
			if moveUp != nil {
				for _, call := range callsTo(fn, moveUp) {
					extra := unaccountedGuard(fn, call.Block(), func(v ssa.Value) bool { return sizeVsSmall(fn, v) })
					c.ob("AG9", fname, "every pushed value is sifted", p.InstrPos(call), extra == nil, "the sift after the append hangs on a branch other than the loop over the arguments (or a test of the heap's size against 0 or 1): some pushed values stay where they were appended")
				}
			}
		}
	}

	// Push returns only when the scan over its arguments is exhausted (no side path that handles
	// the arguments differently)
	var pushScanHeader *ssa.BasicBlock
	{
		x := newPathCtx(p)
		for _, rd := range elemReads(fPush, fPush.Params[1]) {
			if sc, ok := classifyScan(x, fPush, rd.idx, fPush.Params[1]); ok {
				pushScanHeader = sc.header
			}
		}
	}
	for _, b := range fPush.Blocks {
		if rt, ok := b.Instrs[len(b.Instrs)-1].(*ssa.Return); ok {
			c.ob("PT5", p.FuncName(fPush), "returns only after every argument was pushed", p.InstrPos(rt), pushScanHeader != nil && pushScanHeader.Dominates(b) && !path.NaturalLoop(pushScanHeader)[b],
				"Push can return on a path that does not run through the per-argument loop: some calls insert their arguments differently (a bulk path) and the per-element rules do not cover them")
		}
	}
	// who writes the heap array and who re-sifts: only the functions the rules are phrased over
	{
		writers := map[string]bool{"Push": true, "Pop": true, "Delete": true, "Clear": true, "Meld": true, "NewHeap": true, "FromSlice": true}
		slotWriters := map[string]bool{"Pop": true, "Delete": true}
		sifters := map[string]bool{"Push": true, "Pop": true, "Delete": true, "Convert": true, "Sort": true, "moveDown": true, "moveUp": true, "FromSlice": true}
		for _, f := range all {
			fname := p.FuncName(f)
			for _, st := range fieldStores([]*ssa.Function{f}, "Heap", "data") {
				c.ob("AG1", fname, "writes the heap array", p.InstrPos(st), writers[f.Name()], "h.data is replaced by a function the conservation rules do not cover")
			}
			// the array itself handed to another function (Sort(h.data, ...), Reverse(h.data)):
			// only the functions the structure rules cover may do that
			if !sifters[f.Name()] && !writers[f.Name()] && f != getIndex {
				for _, in := range path.Instrs(f) {
					call, ok := in.(ssa.CallInstruction)
					if !ok {
						continue
					}
					if _, isB := call.Common().Value.(*ssa.Builtin); isB {
						continue
					}
					for _, a := range call.Common().Args {
						v := a
						if sl, ok := v.(*ssa.Slice); ok {
							v = sl.X
						}
						if isLoadOfField(v, "Heap", "data") {
							c.ob("AG1", fname, "hands the heap array to another function", p.InstrPos(in), false, "h.data is passed to "+call.Common().Value.Name()+" by a function the structure rules do not cover: the callee can reorder or overwrite the array behind the heap's back")
						}
					}
				}
			}
			// single slots: only the removal paths overwrite an element in place (the
			// victim's slot receives the last element)
			for _, in := range path.Instrs(f) {
				st, ok := in.(*ssa.Store)
				if !ok {
					continue
				}
				if ia, ok := st.Addr.(*ssa.IndexAddr); ok && isLoadOfField(ia.X, "Heap", "data") {
					c.ob("AG1", fname, "overwrites a slot of the heap array", p.InstrPos(st), slotWriters[f.Name()], "an element of h.data is overwritten by a function the conservation rules do not cover: the heap no longer holds exactly what was pushed")
				}
			}
			for _, in := range path.Instrs(f) {
				call, ok := in.(ssa.CallInstruction)
				if !ok {
					continue
				}
				cal := path.StaticCallee(call)
				if cal != nil && (cal == moveDown || cal == moveUp || cal == swapFn) {
					c.ob("AG1", fname, "re-sifts / swaps", p.InstrPos(in), sifters[f.Name()], "the heap array is reordered by a function the structure rules do not cover")
				}
			}
		}
	}
	// getIndex identifies the element by equality, at the index it returns
	if getIndex != nil {
		fn := getIndex
		fname := p.FuncName(fn)
		sl, val := ssa.Value(fn.Params[1]), ssa.Value(fn.Params[2])
		x := newPathCtx(p)
		for _, b := range fn.Blocks {
			rt, ok := b.Instrs[len(b.Instrs)-1].(*ssa.Return)
			if !ok || len(rt.Results) != 2 {
				continue
			}
			bc, isC := path.BoolConst(rt.Results[1])
			if !isC {
				c.und("PV2", fname, "result", p.InstrPos(rt), "found flag is not a constant per path")
				continue
			}
			if !bc {
				c.ob("PV2", fname, "absence only after the whole scan", p.InstrPos(rt), !path.InCycle(b) && onlyViaLoopHeader(fn, b), "getIndex reports absence before every element was compared")
				continue
			}
			idx := rt.Results[0]
			okEq := guardedBy(fn, b, func(cd path.Cond, truth bool) bool {
				if normCmp(cd.Op, truth) != "==" {
					return false
				}
				el, other := cd.X, cd.Y
				if other != val {
					el, other = cd.Y, cd.X
				}
				if other != val {
					return false
				}
				u, ok := el.(*ssa.UnOp)
				if !ok {
					return false
				}
				ia, ok := u.X.(*ssa.IndexAddr)
				return ok && ia.X == sl && ia.Index == idx
			})
			okScan := false
			if sc, ok := classifyScan(x, fn, idx, sl); ok && sc.dir == +1 {
				okScan = true
			}
			c.ob("PV2", fname, "found index holds a value equal to the probe", p.InstrPos(rt), okEq && okScan, "getIndex returns (i, true) on a path not dominated by slice[i] == val in a complete forward scan: Delete can remove a different element than the one named (e.g. one that merely ties under the comparator)")
		}
	}

	// ---------------- Pop
	{
		fn := fPop
		fname := p.FuncName(fn)
		x := newPathCtx(p)
		nonEmpty := func(b *ssa.BasicBlock) bool {
			fs := edgeFacts(x, fn, b)
			return hasFact(fs, "len(h.data)", "!=", "0") || hasFact(fs, "len(h.data)", ">", "0")
		}
		sts := dataStores(fn)
		c.ob("PT1", fname, "array shortened at one site", c.fpos(fn), len(sts) == 1, fmt.Sprintf("expected one store to h.data, found %d", len(sts)))
		for _, st := range sts {
			c.ob("AG6", fname, "shortened by exactly one", p.InstrPos(st), x.path(st.Val) == "h.data[:(len(h.data)-1)]", fmt.Sprintf("h.data becomes %q, expected h.data[:size()-1]", x.path(st.Val)))
			c.ob("PT3", fname, "only when non-empty", p.InstrPos(st), nonEmpty(st.Block()) && !path.InCycle(st.Block()), "the array is shortened on a path not dominated by the non-empty test")
		}
		es := elemStores(fn)
		c.ob("AG6", fname, "root overwritten once", c.fpos(fn), len(es) == 1, fmt.Sprintf("expected exactly one element store (root := last), found %d", len(es)))
		for _, st := range es {
			ia := st.Addr.(*ssa.IndexAddr)
			k, isK := path.IntConst(ia.Index)
			c.ob("AG6", fname, "last element moved to the root", p.InstrPos(st), isK && k == 0 && isDataLoad(ia.X) && x.path(st.Val) == "h.data[(len(h.data)-1)]", "Pop must store h.data[size()-1] into h.data[0]")
			// ... before the array is shortened
			before := false
			for _, ds := range sts {
				if ds.Block() == st.Block() {
					for _, in := range st.Block().Instrs {
						if in == ssa.Instruction(st) {
							before = true
						}
						if in == ssa.Instruction(ds) {
							break
						}
					}
				}
			}
			c.ob("AG6", fname, "root overwritten before the truncation", p.InstrPos(st), before, "the last element must be copied to the root before h.data is shortened")
		}
		// returned value: the root as it was before the overwrite
		for _, b := range fn.Blocks {
			rt, ok := b.Instrs[len(b.Instrs)-1].(*ssa.Return)
			if !ok || b == fn.Recover {
				continue
			}
			rv := path.ReturnValues(rt)[0]
			if !nonEmpty(b) {
				c.ob("PT3", fname, "empty heap yields the zero value", p.InstrPos(rt), zeroResult(rv, b), "Pop on an empty heap must return the zero value")
				// ... and only an empty heap does: the return is guarded by the emptiness test
				fs := edgeFacts(x, fn, b)
				isEmpty := hasFact(fs, "len(h.data)", "==", "0") || hasFact(fs, "len(h.data)", "<=", "0") || hasFact(fs, "len(h.data)", "<", "1")
				c.ob("PT3", fname, "zero value only for the empty heap", p.InstrPos(rt), isEmpty, "Pop returns without removing anything on a path that has not established that the heap is empty: a held element is withheld")
				continue
			}
			okV := false
			var rdPos ssa.Instruction
			if call, ok := rv.(*ssa.Call); ok && peek != nil && path.StaticCallee(call) == peek {
				okV, rdPos = true, call
			}
			if x.path(rv) == "h.data[0]" {
				if in, ok := rv.(ssa.Instruction); ok {
					okV, rdPos = true, in
				}
			}
			// read before the root store
			if okV {
				for _, st := range es {
					if st.Block() == rdPos.Block() {
						seen := false
						for _, in := range st.Block().Instrs {
							if in == rdPos {
								seen = true
							}
							if in == ssa.Instruction(st) && !seen {
								okV = false
							}
						}
					} else if !rdPos.Block().Dominates(st.Block()) {
						okV = false
					}
				}
			}
			c.ob("PV1", fname, "returns the root read before it was overwritten", p.InstrPos(rt), okV, "Pop must return the root element, read in this critical section before the last element is moved there")
		}
		// re-sift the root within the new length
		okDown := false
		if moveDown != nil {
			for _, call := range callsTo(fn, moveDown) {
				k, isK := path.IntConst(call.Common().Args[2])
				if isK && k == 0 {
					okDown = true
				}
				c.ob("RS1", fname, "re-sift at the slot that was filled", p.InstrPos(call), isK && k == 0, "Pop filled slot 0 and must re-sift slot 0")
				extra := unaccountedGuard(fn, call.Block(), func(v ssa.Value) bool { return sizeVsSmall(fn, v) })
				c.ob("RS1", fname, "the root is sifted on every non-empty pop", p.InstrPos(call), extra == nil, "the re-sift hangs on a branch other than a test of the heap's size against 0 or 1: in some states the moved element stays at the root")
			}
		}
		c.ob("RS1", fname, "root sifted down", c.fpos(fn), okDown, "after moving the last element to the root Pop must call moveDown(size(), 0)")
	}

	// ---------------- Delete
	{
		fn := fDelete
		fname := p.FuncName(fn)
		x := newPathCtx(p)
		var found, idx ssa.Value
		if getIndex != nil {
			for _, call := range callsTo(fn, getIndex) {
				a := call.Common().Args
				okA := isDataLoad(a[1]) && a[2] == ssa.Value(paramByName(fn, "val"))
				c.ob("PV2", fname, "looks the value up in the live array", p.InstrPos(call), okA, "Delete must search h.data for val")
				for _, rf := range *call.(ssa.Value).Referrers() {
					if ex, ok := rf.(*ssa.Extract); ok {
						if ex.Index == 0 {
							idx = ex
						} else {
							found = ex
						}
					}
				}
			}
		}
		isFound := func(v ssa.Value) bool { return found != nil && v == found }
		// ... or the lookup is an index function recognised by its body (the module's IndexOf,
		// x/exp/slices.Index): a complete forward == scan of its first argument that returns
		// the index of the first match and -1 only after the whole scan. "Found" is then a
		// test of that index against -1 / 0.
		if found == nil {
			for _, in := range path.Instrs(fn) {
				call, ok := in.(*ssa.Call)
				if !ok {
					continue
				}
				cal := path.StaticCallee(call)
				a := call.Call.Args
				if cal == nil || len(a) != 2 || !isDataLoad(a[0]) || a[1] != ssa.Value(paramByName(fn, "val")) || !eqScan(p, cal, true) {
					continue
				}
				idx = call
				c.ob("PV2", fname, "looks the value up in the live array", p.InstrPos(call), true, "")
			}
		}
		idxFound := func(b *ssa.BasicBlock, want bool) bool {
			if idx == nil || found != nil {
				return false
			}
			allowed := map[int64]bool{-1: true, 0: true, 1: true, 2: true}
			seen := false
			for _, g := range path.Guards(fn, b) {
				cd, ok := path.CondOf(g.If)
				if !ok {
					continue
				}
				truth := g.Idx == 0
				if cd.Neg {
					truth = !truth
				}
				op, l, r := cd.Op, cd.X, cd.Y
				if r == idx {
					l, r = r, l
					switch op {
					case token.LSS:
						op = token.GTR
					case token.LEQ:
						op = token.GEQ
					case token.GTR:
						op = token.LSS
					case token.GEQ:
						op = token.LEQ
					}
				}
				k, isK := path.IntConst(r)
				if l != idx || !isK {
					continue
				}
				seen = true
				for v := range allowed {
					var res bool
					switch op {
					case token.EQL:
						res = v == k
					case token.NEQ:
						res = v != k
					case token.LSS:
						res = v < k
					case token.LEQ:
						res = v <= k
					case token.GTR:
						res = v > k
					case token.GEQ:
						res = v >= k
					default:
						continue
					}
					if res != truth {
						delete(allowed, v)
					}
				}
			}
			if !seen {
				return false
			}
			if want {
				return !allowed[-1] && allowed[0] && allowed[1] && allowed[2]
			}
			return allowed[-1] && !allowed[0] && !allowed[1] && !allowed[2]
		}
		foundAt := func(b *ssa.BasicBlock, want bool) bool {
			return boolGuard(fn, b, isFound, want) || idxFound(b, want)
		}
		sts := dataStores(fn)
		c.ob("PT1", fname, "array shortened at one site", c.fpos(fn), len(sts) == 1, fmt.Sprintf("expected one store to h.data, found %d", len(sts)))
		for _, st := range sts {
			sl, ok := st.Val.(*ssa.Slice)
			okOne := ok && sl.Low == nil && sl.High != nil && isDataLoad(sl.X) && x.path(sl.High) == "(len(h.data)-1)"
			c.ob("AG6", fname, "shortened by exactly one", p.InstrPos(st), okOne, "a successful Delete must shorten h.data by exactly one element")
			c.ob("PT3", fname, "only when the value was found", p.InstrPos(st), foundAt(st.Block(), true), "h.data is shortened on a path not dominated by getIndex's found == true: an absent value removes an element")
		}
		// the victim is swapped with the last slot before truncation
		okSwap := false
		if swapFn != nil {
			for _, call := range callsTo(fn, swapFn) {
				a := call.Common().Args
				// swap is symmetric in its two slots
				direct := a[1] == idx && x.path(a[2]) == "(len(h.data)-1)"
				mirrored := a[2] == idx && x.path(a[1]) == "(len(h.data)-1)"
				if isDataLoad(a[0]) && (direct || mirrored) && foundAt(call.Block(), true) {
					okSwap = true
				}
			}
		}
		c.ob("AG6", fname, "victim swapped to the last slot", c.fpos(fn), okSwap, "Delete must swap the found index with the last slot before shortening the array")
		// results
		for _, b := range fn.Blocks {
			rt, ok := b.Instrs[len(b.Instrs)-1].(*ssa.Return)
			if !ok || b == fn.Recover {
				continue
			}
			rv := path.ReturnValues(rt)
			bc, isC := path.BoolConst(rv[0])
			if !isC {
				c.und("PT3", fname, "result", p.InstrPos(rt), "Delete's boolean result is not a constant per path")
				continue
			}
			if bc {
				c.ob("PT3", fname, "true only after a removal", p.InstrPos(rt), foundAt(b, true) && path.IsNil(rv[1]), "Delete reports success (true, nil) on a path where no element was found")
			} else {
				c.ob("PT3", fname, "absence reported with an error", p.InstrPos(rt), !path.IsNil(rv[1]), "Delete must return an error when it removes nothing")
				// nothing is removed only when the value was looked up and not found, or
				// when the heap is known to be empty
				notFound := foundAt(b, false)
				empty := hasFact(edgeFacts(x, fn, b), "len(h.data)", "==", "0")
				c.ob("PT3", fname, "refuses only an absent value or an empty heap", p.InstrPos(rt), notFound || empty, "Delete gives up on a path where neither the lookup failed nor the heap is known to be empty (len(h.data) == 0): present values are not removed")
				w := 0
				for _, st := range sts {
					if st.Block() == b || st.Block().Dominates(b) {
						w++
					}
				}
				c.ob("PT3", fname, "absence leaves the heap untouched", p.InstrPos(rt), w == 0, "the not-found path changes the array")
			}
		}
		// RS1: the slot that received the foreign element is re-sifted, in both directions
		down, up := false, false
		if moveDown != nil {
			for _, call := range callsTo(fn, moveDown) {
				if call.Common().Args[2] == idx {
					down = true
				}
			}
		}
		if moveUp != nil {
			for _, call := range callsTo(fn, moveUp) {
				if call.Common().Args[1] == idx {
					up = true
				}
			}
		}
		// what it does instead is part of the construct's identity: a recorded finding
		// about one wrong re-sift does not cover a different wrong (or missing) one
		does := []string{}
		{
			xx := newPathCtx(p)
			if moveDown != nil {
				for _, call := range callsTo(fn, moveDown) {
					a := call.Common().Args
					does = append(does, "moveDown("+xx.path(a[1])+", "+xx.path(a[2])+")")
				}
			}
			if moveUp != nil {
				for _, call := range callsTo(fn, moveUp) {
					does = append(does, "moveUp("+xx.path(call.Common().Args[1])+")")
				}
			}
			sort.Strings(does)
			if len(does) == 0 {
				does = []string{"nothing"}
			}
		}
		rsObj := "re-sift at the slot that was filled"
		if !(down && up) {
			rsObj += " (does: " + strings.Join(does, "; ") + ")"
		}
		c.ob("RS1", fname, rsObj, c.fpos(fn), down && up, "Delete moves the former last element into the victim's slot but does not re-sift that slot (moveDown(n, idx) and moveUp(idx)): the heap order is broken when an inner element is deleted")
	}

	// ---------------- BD1: re-sift bound vs. live length
	if moveDown != nil && size != nil {
		for _, fn := range []*ssa.Function{fPop, fDelete, fConvert} {
			fname := p.FuncName(fn)
			cur := map[*ssa.BasicBlock]*int64{} // exit offset of len(h.data) relative to entry, per block
			form := map[ssa.Value]int64{}
			known := map[ssa.Value]bool{}
			var valForm func(v ssa.Value) (int64, bool)
			valForm = func(v ssa.Value) (int64, bool) {
				if known[v] {
					return form[v], true
				}
				if bo, ok := v.(*ssa.BinOp); ok && (bo.Op == token.ADD || bo.Op == token.SUB) {
					if f, ok := valForm(bo.X); ok {
						if k, ok := path.IntConst(bo.Y); ok {
							if bo.Op == token.SUB {
								k = -k
							}
							return f + k, true
						}
					}
				}
				return 0, false
			}
			for _, b := range fn.Blocks { // blocks are in dominance-compatible order for reducible code built by go/ssa
				var st *int64
				switch len(b.Preds) {
				case 0:
					z := int64(0)
					st = &z
				default:
					same := true
					var first *int64
					for i, pr := range b.Preds {
						e := cur[pr]
						if path.InCycle(b) && !pr.Dominates(b) && e == nil {
							continue // back edge not yet computed
						}
						if i == 0 || first == nil {
							first = e
						}
						if e == nil || first == nil || *e != *first {
							same = false
						}
					}
					if same && first != nil {
						v := *first
						st = &v
					}
				}
				for _, in := range b.Instrs {
					switch y := in.(type) {
					case *ssa.Call:
						cal := path.StaticCallee(y)
						if cal == size && st != nil {
							form[y], known[y] = *st, true
						}
						if b2, ok := y.Call.Value.(*ssa.Builtin); ok && b2.Name() == "len" && isDataLoad(y.Call.Args[0]) && st != nil {
							form[y], known[y] = *st, true
						}
						if cal == moveDown {
							n := y.Call.Args[1]
							nf, okN := valForm(n)
							switch {
							case okN && st != nil && nf > *st:
								c.ob("BD1", fname, "re-sift bound within the live array", p.InstrPos(y), false, fmt.Sprintf("moveDown is called with n = len+%d while the array holds len+%d elements: for the smallest heap that reaches this call a child is read past the end (index out of range)", nf, *st))
							case okN && st != nil:
								c.ob("BD1", fname, "re-sift bound within the live array", p.InstrPos(y), true, "")
							default:
								c.r.Info("BD1 %s: bound of moveDown at %s not comparable with the live length (not decided)", fname, p.InstrPos(y))
							}
						}
					case *ssa.Store:
						fa, ok := y.Addr.(*ssa.FieldAddr)
						if !ok || !isFieldOf(fa, "Heap", "data") {
							continue
						}
						st = nil
						if sl, ok := y.Val.(*ssa.Slice); ok && sl.Low == nil && sl.High != nil && isDataLoad(sl.X) {
							if f, ok := valForm(sl.High); ok {
								v := f
								st = &v
							}
						}
					}
				}
				cur[b] = st
			}
		}
	}

	// ---------------- Merge (EF1) and Meld (EF2)
	for _, fn := range []*ssa.Function{fMerge, fMeld} {
		fname := p.FuncName(fn)
		es := elemStores(fn)
		c.ob("EF1", fname, "no element store", c.fpos(fn), len(es) == 0, "Merge/Meld must not store into the arrays of their inputs")
		c.ob("EF1", fname, "no append onto an input", c.fpos(fn), len(appendsOf(fn)) == 0, "appending onto an input's array can write into its spare capacity and makes the result share storage with it")
		// the new heap: NewHeap(h.comp) filled by Push of single elements read from the inputs
		nNew := len(callsTo(fn, fNew))
		c.ob("EF1", fname, "result is a fresh heap", c.fpos(fn), nNew == 1, "the result must be created with NewHeap")
		for _, call := range callsTo(fn, fFromSlice) {
			c.ob("EF1", fname, "no heap built on an input's array", p.InstrPos(call), false, "FromSlice adopts and reorders the slice it is given: building the result on an input's array corrupts the input")
		}
		pushes := callsTo(fn, fPush)
		okPush := len(pushes) == 2
		for _, call := range pushes {
			a := call.Common().Args
			if _, isNew := a[0].(*ssa.Call); !isNew {
				okPush = false
			}
			v, ok := singleElemSlice(a[1])
			if !ok {
				okPush = false
				continue
			}
			u, ok := v.(*ssa.UnOp)
			if !ok {
				okPush = false
				continue
			}
			ia, ok := u.X.(*ssa.IndexAddr)
			if !ok || !isDataLoad(ia.X) || !isForwardInduction(ia.Index) {
				okPush = false
			}
		}
		c.ob("PV1", fname, "every element of both inputs pushed into the new heap", c.fpos(fn), okPush, "the result must receive data[i] of each input for i = 0 .. size()-1 through Push")
		sts := dataStores(fn)
		if fn == fMerge {
			c.ob("EF1", fname, "inputs keep their arrays", c.fpos(fn), len(sts) == 0, "Merge must leave h.data and h2.data as they are")
		} else {
			x := newPathCtx(p)
			cleared := map[string]bool{}
			for _, st := range sts {
				tgt := stripAmp(x.path(st.Addr))
				okNil := path.IsNil(st.Val)
				c.ob("EF2", fname, "input emptied", p.InstrPos(st), okNil, "Meld must store an empty array into the input")
				// on every path: the store's block dominates every return
				dom := true
				for _, b := range fn.Blocks {
					if _, ok := b.Instrs[len(b.Instrs)-1].(*ssa.Return); ok && !(st.Block() == b || st.Block().Dominates(b)) {
						dom = false
					}
				}
				if okNil && dom {
					cleared[tgt] = true
				}
			}
			c.ob("EF2", fname, "both inputs emptied on every path", c.fpos(fn), cleared["h.data"] && cleared["h2.data"], "Meld must empty h and h2 on every path")
		}
		for _, b := range fn.Blocks {
			if rt, ok := b.Instrs[len(b.Instrs)-1].(*ssa.Return); ok {
				call, isCall := rt.Results[0].(*ssa.Call)
				c.ob("PV1", fname, "returns the new heap", p.InstrPos(rt), isCall && path.StaticCallee(call) == fNew, "the fresh heap must be returned")
			}
		}
	}

	// ---------------- Convert
	{
		fn := fConvert
		fname := p.FuncName(fn)
		x := newPathCtx(p)
		isComp := func(in ssa.Instruction) bool {
			st, ok := in.(*ssa.Store)
			if !ok {
				return false
			}
			fa, ok := st.Addr.(*ssa.FieldAddr)
			return ok && isFieldOf(fa, "Heap", "comp")
		}
		mn, mx := path.MinCount(fn, isComp), path.MaxCount(fn, isComp)
		c.ob("PT2", fname, "comparator installed on every path", c.fpos(fn), mn == 1 && mx == 1, fmt.Sprintf("h.comp is stored %d..%s times depending on the path: a heap too small to need re-heapifying would keep its old comparator", mn, countStr(mx)))
		for _, in := range path.Instrs(fn) {
			if isComp(in) {
				st := in.(*ssa.Store)
				c.ob("PT2", fname, "the new comparator is the argument", p.InstrPos(st), st.Val == ssa.Value(paramByName(fn, "comp")), "h.comp must become the comp argument")
				if moveDown != nil {
					for _, call := range callsTo(fn, moveDown) {
						okB := st.Block().Dominates(call.Block()) && st.Block() != call.Block()
						c.ob("PT2", fname, "comparator installed before re-heapifying", p.InstrPos(call), okB, "moveDown runs before the new comparator is stored: the array is ordered for the old comparator")
					}
				}
			}
		}
		if moveDown != nil {
			calls := callsTo(fn, moveDown)
			c.ob("AG9", fname, "re-heapify loop", c.fpos(fn), len(calls) == 1, "expected one moveDown call in a loop")
			for _, call := range calls {
				a := call.Common().Args
				ph, ok := a[2].(*ssa.Phi)
				// the start is at (or above) the last internal node, size/2 - 1
				okStart := ok
				if ok {
					isLen := func(v ssa.Value) bool { return x.path(v) == "len(h.data)" }
					for n := int64(0); n <= 9 && okStart; n++ {
						v, okE, _ := evalLenExpr(phiInit(ph), isLen, n)
						if !okE || (n/2-1 >= 0 && v < n/2-1) {
							okStart = false
						}
					}
				}
				okL := ok && phiStep(ph) == -1 && okStart && x.path(a[1]) == "len(h.data)"
				if okL {
					okL = guardedByHeader(ph, func(cd path.Cond) bool {
						k, isK := path.IntConst(cd.Y)
						return cd.X == ssa.Value(ph) && isK && ((cd.Op == token.GEQ && k == 0) || (cd.Op == token.GTR && k == -1))
					})
				}
				c.ob("AG9", fname, "bottom-up from the last internal node", p.InstrPos(call), okL, "Convert must call moveDown(size(), i) for i = (size()-2)/2 down to 0")
			}
		}
	}

	// ---------------- AG1: ordering only through the comparator
	for _, fn := range all {
		fname := p.FuncName(fn)
		for _, in := range path.Instrs(fn) {
			bo, ok := in.(*ssa.BinOp)
			if !ok {
				continue
			}
			if _, isTP := bo.X.Type().(*types.TypeParam); !isTP {
				continue
			}
			switch bo.Op {
			case token.LSS, token.GTR, token.LEQ, token.GEQ:
				c.ob("AG1", fname, "ordering decided by the comparator only", p.InstrPos(bo), false, "elements are compared with a built-in ordering operator instead of the heap's comparator")
			case token.EQL, token.NEQ:
				c.ob("AG1", fname, "equality only in the lookup", p.InstrPos(bo), getIndex != nil && fn == getIndex, "elements are compared for equality outside getIndex")
			}
		}
	}
	// comparator calls come from h.comp (methods) or the comp parameter (FromSlice)
	for _, fn := range []*ssa.Function{moveUp, moveDown} {
		if fn == nil {
			continue
		}
		n := 0
		for _, in := range path.Instrs(fn) {
			call, ok := in.(*ssa.Call)
			if !ok || call.Call.StaticCallee() != nil || call.Call.IsInvoke() {
				continue
			}
			if _, isB := call.Call.Value.(*ssa.Builtin); isB {
				continue
			}
			n++
			c.ob("AG1", p.FuncName(fn), "comparator is the heap's current one", p.InstrPos(call), isLoadOfField(call.Call.Value, "Heap", "comp"), "the ordering callback is not h.comp")
		}
		c.ob("AG1", p.FuncName(fn), "comparator consulted", c.fpos(fn), n >= 1, "no comparator call found")
	}

	// ---------------- AG9 index maps
	if left != nil && right != nil && parent != nil {
		form := func(fn *ssa.Function) (lin, bool) {
			ret := accessorReturn(fn)
			if ret == nil {
				return lin{}, false
			}
			return linForm(ret, fn.Params[1])
		}
		lf, ok1 := form(left)
		rf, ok2 := form(right)
		pf, ok3 := form(parent)
		c.ob("AG9", p.FuncName(left), "index map is linear", c.fpos(left), ok1 && lf.d == 1, "leftChild is not of the form a*i+b")
		c.ob("AG9", p.FuncName(right), "index map is linear", c.fpos(right), ok2 && rf.d == 1, "rightChild is not of the form a*i+b")
		c.ob("AG9", p.FuncName(parent), "index map is linear", c.fpos(parent), ok3 && pf.a == 1, "parent is not of the form (i+b)/d")
		if ok1 && ok2 && ok3 && lf.d == 1 && rf.d == 1 && pf.a == 1 {
			// parent(child(i)) = (a*i + b + pb)/d = i  for all i >= 0  iff  a == d and 0 <= b+pb < d
			inv := func(ch lin) bool { return ch.a == pf.d && ch.b+pf.b >= 0 && ch.b+pf.b < pf.d }
			c.ob("AG9", p.FuncName(parent), "parent inverts leftChild", c.fpos(parent), inv(lf), fmt.Sprintf("parent(leftChild(i)) = (%d*i%+d)/%d is not i", lf.a, lf.b+pf.b, pf.d))
			c.ob("AG9", p.FuncName(parent), "parent inverts rightChild", c.fpos(parent), inv(rf), fmt.Sprintf("parent(rightChild(i)) = (%d*i%+d)/%d is not i", rf.a, rf.b+pf.b, pf.d))
			c.ob("AG9", p.FuncName(right), "children are distinct neighbours", c.fpos(right), lf.a == rf.a && rf.b == lf.b+1 && lf.b >= 1, "left and right child must be the consecutive slots a*i+b, a*i+b+1 with b >= 1 (slot 0 is the root)")
			// FromSlice's inlined children equal the helper forms
			okInl := 0
			var iv ssa.Value
			for _, in := range path.Instrs(fFromSlice) {
				bo, ok := in.(*ssa.BinOp)
				if !ok || bo.Op != token.ADD {
					continue
				}
				mul, ok := bo.X.(*ssa.BinOp)
				if !ok || mul.Op != token.MUL {
					continue
				}
				sym := mul.Y
				if _, isC := path.IntConst(mul.Y); isC {
					sym = mul.X
				}
				f, ok := linForm(bo, sym)
				if !ok {
					continue
				}
				if f == lf || f == rf {
					okInl++
					iv = sym
				}
			}
			_ = iv
			c.ob("AG9", p.FuncName(fFromSlice), "inlined children agree with leftChild/rightChild", c.fpos(fFromSlice), okInl == 2, "FromSlice computes its children with different index maps than the rest of the heap")
			// a child is compared exactly when it exists: the tests on the inlined child
			// indices are against len(data) itself
			{
				xx := newPathCtx(p)
				nb := 0
				for _, b := range fFromSlice.Blocks {
					iff := path.BlockIf(b)
					if iff == nil {
						continue
					}
					cd, ok := path.CondOf(iff)
					if !ok {
						continue
					}
					for _, side := range [][2]ssa.Value{{cd.X, cd.Y}, {cd.Y, cd.X}} {
						idx, bound := side[0], side[1]
						bo, isB := idx.(*ssa.BinOp)
						if !isB || bo.Op != token.ADD {
							continue
						}
						if _, ok := linForm(bo, iv); !ok || iv == nil {
							continue
						}
						bp := xx.path(bound)
						if !strings.Contains(bp, "len(") {
							continue
						}
						nb++
						c.ob("AG9", p.FuncName(fFromSlice), "child tested against len(data)", p.InstrPos(iff), bp == "len(data)", "a child index is compared with "+bp+" instead of len(data): the last element is never taken for a child (or a slot past the end is)")
					}
				}
				c.ob("AG9", p.FuncName(fFromSlice), "child bounds tested", c.fpos(fFromSlice), nb >= 2, "expected the two tests of the child indices against len(data)")
			}
			// the bottom-up pass starts at (or above) the last internal node, len/2 - 1, and
			// runs down to slot 0: otherwise an internal node is never sifted
			{
				okStart := false
				data := ssa.Value(fFromSlice.Params[0])
				isLen := func(v ssa.Value) bool {
					call, ok := v.(*ssa.Call)
					if !ok {
						return false
					}
					b, ok := call.Call.Value.(*ssa.Builtin)
					return ok && b.Name() == "len" && path.Unspill(call.Call.Args[0]) == data
				}
				for _, in := range path.Instrs(fFromSlice) {
					ph, ok := in.(*ssa.Phi)
					if !ok || len(path.NaturalLoop(ph.Block())) == 0 {
						continue
					}
					// the outer counter: its initial value is an arithmetic expression of len(data)
					var init ssa.Value
					for i, e := range ph.Edges {
						if !path.NaturalLoop(ph.Block())[ph.Block().Preds[i]] {
							init = e
						}
					}
					if init == nil {
						continue
					}
					uses := false
					good := true
					for n := int64(0); n <= 9; n++ {
						v, ok, usedLen := evalLenExpr(init, isLen, n)
						if !ok {
							good = false
							break
						}
						uses = uses || usedLen
						if n/2-1 >= 0 && v < n/2-1 {
							good = false
						}
					}
					if !uses {
						continue
					}
					down := guardedByHeader(ph, func(cd path.Cond) bool {
						k, isK := path.IntConst(cd.Y)
						return cd.X == ssa.Value(ph) && isK && ((cd.Op == token.GEQ && k == 0) || (cd.Op == token.GTR && k == -1))
					})
					if good && down {
						okStart = true
					}
				}
				c.ob("AG9", p.FuncName(fFromSlice), "bottom-up from the last internal node", c.fpos(fFromSlice), okStart, "FromSlice must sift every internal node: the outer counter has to start at len(data)/2 - 1 or above and run while i >= 0")
			}
		}
	}
	// moveDown structure
	if moveDown != nil && left != nil && right != nil && swapFn != nil {
		fn := moveDown
		fname := p.FuncName(fn)
		nP, iP := ssa.Value(fn.Params[1]), ssa.Value(fn.Params[2])
		// the node index: the parameter i (the sift continues by a recursive call) or,
		// when the sift is written as a loop, the loop variable that starts at i
		var iterPhi *ssa.Phi
		for _, call := range callsTo(fn, left) {
			if ph, ok := call.Common().Args[1].(*ssa.Phi); ok {
				n := 0
				for _, e := range ph.Edges {
					if e == iP {
						n++
					}
				}
				if n == 1 && len(path.NaturalLoop(ph.Block())) > 0 {
					iterPhi = ph
				}
			}
		}
		if iterPhi != nil {
			iP = iterPhi
		}
		var lv, rv ssa.Value
		for _, call := range callsTo(fn, left) {
			if call.Common().Args[1] == iP {
				lv = call.(ssa.Value)
			}
		}
		for _, call := range callsTo(fn, right) {
			if call.Common().Args[1] == iP {
				rv = call.(ssa.Value)
			}
		}
		c.ob("AG9", fname, "children of i computed", c.fpos(fn), lv != nil && rv != nil, "moveDown must compute leftChild(i) and rightChild(i)")
		// each comparator call: comp(data[child], data[current]) guarded by child < n
		type cmpInfo struct {
			child, other ssa.Value
			call         *ssa.Call
		}
		var cmps []cmpInfo
		for _, in := range path.Instrs(fn) {
			call, ok := in.(*ssa.Call)
			if !ok || !isLoadOfField(call.Call.Value, "Heap", "comp") || len(call.Call.Args) != 2 {
				continue
			}
			idxOf := func(v ssa.Value) ssa.Value {
				u, ok := v.(*ssa.UnOp)
				if !ok {
					return nil
				}
				ia, ok := u.X.(*ssa.IndexAddr)
				if !ok || !isDataLoad(ia.X) {
					return nil
				}
				return ia.Index
			}
			cmps = append(cmps, cmpInfo{idxOf(call.Call.Args[0]), idxOf(call.Call.Args[1]), call})
		}
		c.ob("AG9", fname, "two comparisons", c.fpos(fn), len(cmps) == 2, fmt.Sprintf("expected the two comparator calls (left vs node, right vs best), found %d", len(cmps)))
		for _, ci := range cmps {
			if ci.child == nil || ci.other == nil {
				c.und("AG9", fname, "comparison operands", p.InstrPos(ci.call), "comparator operands are not elements of h.data")
				continue
			}
			bound := guardedBy(fn, ci.call.Block(), func(cd path.Cond, truth bool) bool {
				rel := normCmp(cd.Op, truth)
				return (rel == "<" && cd.X == ci.child && cd.Y == nP) || (rel == ">" && cd.Y == ci.child && cd.X == nP)
			})
			c.ob("PT3", fname, "child read only below the bound n", p.InstrPos(ci.call), bound, "a child element is read without the dominating test child < n")
			switch ci.child {
			case lv:
				c.ob("AG9", fname, "left child compared with the node", p.InstrPos(ci.call), ci.other == iP, "the left child must be compared with the node at i")
			case rv:
				// the other operand is "current": a phi of {i, left}
				okCur := false
				if ph, ok := ci.other.(*ssa.Phi); ok {
					hasI, hasL, other := false, false, false
					for _, e := range ph.Edges {
						switch e {
						case iP:
							hasI = true
						case lv:
							hasL = true
						default:
							other = true
						}
					}
					okCur = hasI && hasL && !other
				}
				c.ob("AG9", fname, "right child compared with the better of node and left child", p.InstrPos(ci.call), okCur, "the right child must be compared with the current best (the left child when it won), not with the node: otherwise the wrong child can move up")
			default:
				c.ob("AG9", fname, "comparison operand is a child of i", p.InstrPos(ci.call), false, "the first comparator operand is neither the left nor the right child")
			}
		}
		// swap(i, current) and recursion at current with the same bound, only when current != i
		for _, call := range callsTo(fn, swapFn) {
			a := call.Common().Args
			cur := a[2]
			if a[1] != iP {
				cur = a[1]
			}
			okS := (a[1] == iP || a[2] == iP) && isDataLoad(a[0])
			ne := guardedBy(fn, call.Block(), func(cd path.Cond, truth bool) bool {
				rel := normCmp(cd.Op, truth)
				return rel == "!=" && ((cd.X == cur && cd.Y == iP) || (cd.Y == cur && cd.X == iP))
			})
			c.ob("AG9", fname, "node swapped with the chosen child", p.InstrPos(call), okS && ne, "moveDown must swap slot i with the chosen child, only when a child was chosen")
			okRec := false
			for _, rc2 := range callsTo(fn, fn) {
				ra := rc2.Common().Args
				if ra[1] == nP && ra[2] == cur && call.Block().Dominates(rc2.Block()) {
					okRec = true
				}
			}
			if iterPhi != nil {
				// loop form: every back edge carries the slot swapped with and lies behind the swap
				okRec = true
				back := 0
				for k, e := range iterPhi.Edges {
					if e == ssa.Value(fn.Params[2]) {
						continue
					}
					back++
					if e != cur || !call.Block().Dominates(iterPhi.Block().Preds[k]) {
						okRec = false
					}
				}
				if back == 0 {
					okRec = false
				}
			}
			c.ob("AG9", fname, "continues at the slot it swapped with", p.InstrPos(call), okRec, "after the swap moveDown must continue at the child's slot with the same bound n")
		}
	}
	// moveUp structure
	if moveUp != nil && parent != nil && swapFn != nil {
		fn := moveUp
		fname := p.FuncName(fn)
		okCmp, okSwap, okStep := false, false, false
		var iv ssa.Value
		for _, in := range path.Instrs(fn) {
			call, ok := in.(*ssa.Call)
			if !ok {
				continue
			}
			if isLoadOfField(call.Call.Value, "Heap", "comp") && len(call.Call.Args) == 2 {
				a0, ok0 := call.Call.Args[0].(*ssa.UnOp)
				a1, ok1 := call.Call.Args[1].(*ssa.UnOp)
				if ok0 && ok1 {
					i0, okA := a0.X.(*ssa.IndexAddr)
					i1, okB := a1.X.(*ssa.IndexAddr)
					if okA && okB {
						if isAppOf(i1.Index, parent, i0.Index) {
							okCmp = true
							iv = i0.Index
						}
					}
				}
			}
		}
		for _, call := range callsTo(fn, swapFn) {
			a := call.Common().Args
			if (a[1] == iv && isAppOf(a[2], parent, iv)) || (a[2] == iv && isAppOf(a[1], parent, iv)) {
				okSwap = true
			}
		}
		if ph, ok := iv.(*ssa.Phi); ok {
			for _, e := range ph.Edges {
				if e != ssa.Value(fn.Params[1]) && isAppOf(e, parent, iv) {
					okStep = true
				}
			}
		}
		c.ob("AG9", fname, "compares the element with its parent", c.fpos(fn), okCmp, "moveUp must test comp(data[i], data[parent(i)])")
		c.ob("AG9", fname, "swaps with the parent and continues there", c.fpos(fn), okSwap && okStep, "moveUp must swap slot i with parent(i) and continue with i = parent(i)")
	}

	// ---------------- Sort
	if swapFn != nil && moveDown != nil {
		fn := fSort
		fname := p.FuncName(fn)
		data := ssa.Value(fn.Params[0])
		var hp ssa.Value
		for _, call := range callsTo(fn, fFromSlice) {
			a := call.Common().Args
			if a[0] == data && a[1] == ssa.Value(fn.Params[1]) {
				hp = call.(ssa.Value)
			}
		}
		c.ob("PV4", fname, "heapifies its argument with its comparator", c.fpos(fn), hp != nil, "Sort must start with FromSlice(data, comp)")
		okLoop := false
		for _, call := range callsTo(fn, swapFn) {
			a := call.Common().Args
			k, isK := path.IntConst(a[1])
			ph, isPhi := a[2].(*ssa.Phi)
			if a[0] == data && isK && k == 0 && isPhi && phiStep(ph) == -1 {
				for _, md := range callsTo(fn, moveDown) {
					ma := md.Common().Args
					k2, isK2 := path.IntConst(ma[2])
					if ma[0] == hp && ma[1] == ssa.Value(ph) && isK2 && k2 == 0 && call.Block().Dominates(md.Block()) {
						okLoop = guardedByHeader(ph, func(cd path.Cond) bool {
							kk, isKK := path.IntConst(cd.Y)
							// down to 1 (a last round at i = 0 swaps the root with itself and sifts nothing)
							return cd.X == ssa.Value(ph) && isKK && ((cd.Op == token.GTR && (kk == 0 || kk == -1)) || (cd.Op == token.GEQ && (kk == 1 || kk == 0)))
						})
					}
				}
			}
		}
		c.ob("AG9", fname, "repeated root extraction into the tail", c.fpos(fn), okLoop, "Sort must, for i = size-1 down to 1, swap(data, 0, i) and then moveDown(i, 0)")
	}

	// ---------------- Peek / Size / IsEmpty / Clear
	if peek != nil {
		fn := peek
		x := newPathCtx(p)
		for _, b := range fn.Blocks {
			rt, ok := b.Instrs[len(b.Instrs)-1].(*ssa.Return)
			if !ok {
				continue
			}
			fs := edgeFacts(x, fn, b)
			if hasFact(fs, "len(h.data)", "==", "0") {
				c.ob("PT3", p.FuncName(fn), "empty heap yields the zero value", p.InstrPos(rt), isZeroConst(rt.Results[0]), "peek on an empty heap must return the zero value")
			} else {
				c.ob("AG6", p.FuncName(fn), "root is data[0], read under the non-empty guard", p.InstrPos(rt), x.path(rt.Results[0]) == "h.data[0]" && (hasFact(fs, "len(h.data)", "!=", "0") || hasFact(fs, "len(h.data)", ">", "0")), "peek must return h.data[0] only when the heap is non-empty")
			}
		}
		ret := accessorReturnDefer(fPeek)
		call, isCall := ret.(*ssa.Call)
		c.ob("AG6", p.FuncName(fPeek), "Peek is peek under the lock", c.fpos(fPeek), isCall && path.StaticCallee(call) == peek, "Peek must return peek()")
	}
	{
		x := newPathCtx(p)
		ret := accessorReturnDefer(fSize)
		c.ob("CM1", p.FuncName(fSize), "Size is len(data)", c.fpos(fSize), ret != nil && x.path(ret) == "len(h.data)", "Size must return the number of held elements")
		ret = accessorReturnDefer(fEmpty)
		got := ""
		if ret != nil {
			got = x.path(ret)
		}
		c.ob("CM1", p.FuncName(fEmpty), "IsEmpty is size == 0", c.fpos(fEmpty), got == "(len(h.data)==0)", fmt.Sprintf("IsEmpty returns %q", got))
		for _, st := range dataStores(fClear) {
			c.ob("AG6", p.FuncName(fClear), "Clear empties the array", p.InstrPos(st), x.path(st.Val) == "h.data[:0]" || path.IsNil(st.Val), "Clear must store an empty array")
		}
	}
}

// dominatedByALoopHeader: some natural-loop header dominates b (b lies after a loop).
func dominatedByALoopHeader(fn *ssa.Function, b *ssa.BasicBlock) bool {
	for _, h := range fn.Blocks {
		if l := path.NaturalLoop(h); len(l) > 0 && h.Dominates(b) {
			return true
		}
	}
	return false
}

// isAppOf reports whether v always holds f(x), f one of the heap's pure index
// helpers: v is the call f(x) itself, or v and x are loop variables merged in the
// same block whose incoming values are related that way edge by edge (the call
// hoisted into a local that is recomputed whenever x changes; coinductive on the
// pair).
func isAppOf(v ssa.Value, f *ssa.Function, x ssa.Value) bool {
	type pair struct{ v, x ssa.Value }
	assume := map[pair]bool{}
	var rec func(v, x ssa.Value) bool
	rec = func(v, x ssa.Value) bool {
		if assume[pair{v, x}] {
			return true
		}
		if c, ok := v.(*ssa.Call); ok {
			return path.StaticCallee(c) == f && len(c.Call.Args) == 2 && c.Call.Args[1] == x
		}
		pv, ok := v.(*ssa.Phi)
		if !ok {
			return false
		}
		assume[pair{v, x}] = true
		px, isPhi := x.(*ssa.Phi)
		for k, e := range pv.Edges {
			xe := x
			if isPhi && px.Block() == pv.Block() {
				xe = px.Edges[k]
			} else if isPhi {
				return false
			}
			if !rec(e, xe) {
				return false
			}
		}
		return true
	}
	return rec(v, x)
}

// evalLenExpr evaluates an integer expression built from +, -, *, / (Go's truncating
// division), integer constants and len(x) (isLen) with len(x) = n. usedLen reports
// whether the expression mentions the length at all.
func evalLenExpr(v ssa.Value, isLen func(ssa.Value) bool, n int64) (val int64, ok bool, usedLen bool) {
	if k, isK := path.IntConst(v); isK {
		return k, true, false
	}
	if isLen(v) {
		return n, true, true
	}
	bo, isB := v.(*ssa.BinOp)
	if !isB {
		return 0, false, false
	}
	a, ok1, u1 := evalLenExpr(bo.X, isLen, n)
	b, ok2, u2 := evalLenExpr(bo.Y, isLen, n)
	if !ok1 || !ok2 {
		return 0, false, false
	}
	switch bo.Op {
	case token.ADD:
		return a + b, true, u1 || u2
	case token.SUB:
		return a - b, true, u1 || u2
	case token.MUL:
		return a * b, true, u1 || u2
	case token.QUO:
		if b == 0 {
			return 0, false, false
		}
		return a / b, true, u1 || u2
	}
	return 0, false, false
}
