// Package props wires the engines' rules to the properties C01..C20.
package props

import (
	"sort"

	"gogucheck/core"
)

// Check is one property check.
type Check struct {
	ID          string
	Explanation string
	Assumptions []string
	NotDecided  []string
	Run         func(p *core.Program, r *core.Report)
}

var registry = map[string]*Check{}

func register(c *Check) { registry[c.ID] = c }

func Get(id string) *Check { return registry[id] }

func IDs() []string {
	var out []string
	for k := range registry {
		out = append(out, k)
	}
	sort.Strings(out)
	return out
}
