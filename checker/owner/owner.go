// Package owner is engine E2: ownership of arguments and results of the helper
// functions. Reference-typed values carry tags saying whose storage they refer to
// (a parameter's own container storage, a reference loaded out of a parameter, or
// storage allocated by the function); per-function summaries (writes-to, result
// aliases) are computed bottom-up and instantiated at call sites. Rules OW1-OW3.
package owner

import (
	"fmt"
	"go/token"
	"go/types"
	"sort"
	"strings"

	"golang.org/x/tools/go/ssa"

	"gogucheck/core"
)

type kind uint8

const (
	kParam  kind = iota + 1 // storage of parameter Idx; Depth 0 = the container itself, >0 = references loaded out of it
	kFresh                  // storage allocated at site Idx (index into Engine.sites)
	kOpaque                 // result of a user callback or of an external function (not the caller's argument storage as far as we know)
)

// Tag says whose storage a reference value refers to.
type Tag struct {
	K     kind
	Idx   int
	Depth int
}

func (t Tag) String() string {
	switch t.K {
	case kParam:
		return fmt.Sprintf("param%d/%d", t.Idx, t.Depth)
	case kFresh:
		return fmt.Sprintf("fresh#%d", t.Idx)
	}
	return "opaque"
}

type AV map[Tag]struct{}

func (a AV) add(t Tag) bool {
	if t.K == kParam && t.Depth > 2 {
		t.Depth = 2
	}
	if _, ok := a[t]; ok {
		return false
	}
	a[t] = struct{}{}
	return true
}

func (a AV) union(b AV) bool {
	ch := false
	for t := range b {
		if a.add(t) {
			ch = true
		}
	}
	return ch
}

func (a AV) String() string {
	var s []string
	for t := range a {
		s = append(s, t.String())
	}
	sort.Strings(s)
	return strings.Join(s, ",")
}

// Write is one write effect on caller-visible storage.
type Write struct {
	Param, Depth int
	Instr        ssa.Instruction
	What         string
	Via          []string // callee chain
	SelfStore    bool     // the recognised no-op "m[k] = v" inside "for k, v := range m"
}

// Summary of one function.
type Summary struct {
	Fn        *ssa.Function
	Writes    []Write
	Ret       AV // tags of the returned reference values, in terms of the function's own parameters and fresh sites
	RetInner  AV // tags of the references stored inside returned fresh containers (one level or more)
	Undecided []string
	writeSeen map[string]bool
}

type site struct {
	instr   ssa.Value
	content AV
}

// Engine analyses a set of functions.
type Engine struct {
	P       *core.Program
	sums    map[*ssa.Function]*Summary
	sites   []*site
	siteIdx map[ssa.Value]int
	changed bool
}

func New(p *core.Program) *Engine {
	return &Engine{P: p, sums: map[*ssa.Function]*Summary{}, siteIdx: map[ssa.Value]int{}}
}

func isContainer(t types.Type) bool {
	switch u := t.Underlying().(type) {
	case *types.Slice, *types.Map, *types.Pointer, *types.Interface, *types.Chan:
		return true
	case *types.Array:
		return isContainer(u.Elem())
	case *types.Struct:
		for i := 0; i < u.NumFields(); i++ {
			if isContainer(u.Field(i).Type()) {
				return true
			}
		}
	case *types.Tuple:
		for i := 0; i < u.Len(); i++ {
			if _, tp := u.At(i).Type().(*types.TypeParam); !tp && isContainer(u.At(i).Type()) {
				return true
			}
		}
	}
	return false
}

// refType: may a value of this type refer to mutable storage? Type parameters are
// opaque element values: they are passed around, never looked into.
func refType(t types.Type) bool {
	if _, ok := t.(*types.TypeParam); ok {
		return false
	}
	return isContainer(t)
}

func (e *Engine) site(v ssa.Value) int {
	if i, ok := e.siteIdx[v]; ok {
		return i
	}
	e.sites = append(e.sites, &site{instr: v, content: AV{}})
	e.siteIdx[v] = len(e.sites) - 1
	return len(e.sites) - 1
}

// Summaries analyses every in-module function reachable from roots (bottom-up by
// global iteration) and returns their summaries.
func (e *Engine) Summaries(roots []*ssa.Function) map[*ssa.Function]*Summary {
	// collect the call closure
	var order []*ssa.Function
	seen := map[*ssa.Function]bool{}
	var visit func(fn *ssa.Function)
	visit = func(fn *ssa.Function) {
		fn = core.Canon(fn)
		if fn == nil || seen[fn] || !e.P.InModule(fn) || len(fn.Blocks) == 0 {
			return
		}
		seen[fn] = true
		forEachInstr(fn, func(owner *ssa.Function, in ssa.Instruction) {
			if c, ok := in.(ssa.CallInstruction); ok {
				if callee := c.Common().StaticCallee(); callee != nil {
					visit(callee)
				}
			}
		})
		order = append(order, fn)
	}
	for _, r := range roots {
		visit(r)
	}
	for round := 0; round < 8; round++ {
		e.changed = false
		for _, fn := range order {
			e.analyze(fn)
		}
		if !e.changed {
			break
		}
	}
	return e.sums
}

// forEachInstr visits the instructions of fn and of its closures (closures are
// analysed as part of the function that creates them).
func forEachInstr(fn *ssa.Function, f func(owner *ssa.Function, in ssa.Instruction)) {
	var rec func(g *ssa.Function)
	rec = func(g *ssa.Function) {
		for _, b := range g.Blocks {
			for _, in := range b.Instrs {
				f(g, in)
			}
		}
		for _, a := range g.AnonFuncs {
			rec(a)
		}
	}
	rec(fn)
}

type fnState struct {
	e    *Engine
	fn   *ssa.Function
	sum  *Summary
	vals map[ssa.Value]AV
	grew bool
}

func (s *fnState) val(v ssa.Value) AV {
	if av, ok := s.vals[v]; ok {
		return av
	}
	return nil
}

func (s *fnState) set(v ssa.Value, av AV) {
	if len(av) == 0 {
		return
	}
	cur := s.vals[v]
	if cur == nil {
		cur = AV{}
		s.vals[v] = cur
	}
	if cur.union(av) {
		s.grew = true
	}
}

// deref: what a load through (or an element read out of) a reference with tags av yields.
func (s *fnState) deref(av AV, resType types.Type) AV {
	out := AV{}
	if !refType(resType) {
		return out
	}
	for t := range av {
		switch t.K {
		case kParam:
			out.add(Tag{K: kParam, Idx: t.Idx, Depth: t.Depth + 1})
		case kFresh:
			out.union(s.e.sites[t.Idx].content)
		case kOpaque:
			out.add(t)
		}
	}
	return out
}

func (s *fnState) store(addr AV, val AV) {
	for t := range addr {
		if t.K == kFresh {
			if s.e.sites[t.Idx].content.union(val) {
				s.grew = true
				s.e.changed = true
			}
		}
	}
}

func (s *fnState) write(addr AV, in ssa.Instruction, what string, via []string, self bool) {
	for t := range addr {
		if t.K != kParam {
			continue
		}
		k := fmt.Sprintf("%d/%d/%p/%s", t.Idx, t.Depth, in, strings.Join(via, ">"))
		if s.sum.writeSeen[k] {
			continue
		}
		s.sum.writeSeen[k] = true
		s.sum.Writes = append(s.sum.Writes, Write{Param: t.Idx, Depth: t.Depth, Instr: in, What: what, Via: via, SelfStore: self})
		s.e.changed = true
	}
}

func (e *Engine) analyze(fn *ssa.Function) {
	sum := e.sums[fn]
	if sum == nil {
		sum = &Summary{Fn: fn, Ret: AV{}, RetInner: AV{}, writeSeen: map[string]bool{}}
		e.sums[fn] = sum
		e.changed = true
	}
	s := &fnState{e: e, fn: fn, sum: sum, vals: map[ssa.Value]AV{}}
	for i, p := range fn.Params {
		if refType(p.Type()) {
			s.set(p, AV{Tag{K: kParam, Idx: i}: {}})
		}
	}
	und := map[string]bool{}
	for pass := 0; pass < 20; pass++ {
		s.grew = false
		forEachInstr(fn, func(owner *ssa.Function, in ssa.Instruction) { s.instr(owner, in, und) })
		if !s.grew {
			break
		}
	}
	// results
	retBefore, innerBefore := len(sum.Ret), len(sum.RetInner)
	for _, b := range fn.Blocks {
		r, ok := b.Instrs[len(b.Instrs)-1].(*ssa.Return)
		if !ok {
			continue
		}
		for _, v := range r.Results {
			if !refType(v.Type()) {
				continue
			}
			av := s.val(v)
			sum.Ret.union(av)
			// what fresh result containers hold, transitively
			seen := map[int]bool{}
			var inner func(a AV, d int)
			inner = func(a AV, d int) {
				for t := range a {
					if t.K == kFresh && !seen[t.Idx] && d < 4 {
						seen[t.Idx] = true
						c := e.sites[t.Idx].content
						for ct := range c {
							if ct.K != kFresh {
								sum.RetInner.add(ct)
							}
						}
						inner(c, d+1)
					}
				}
			}
			inner(av, 0)
		}
	}
	if len(sum.Ret) != retBefore || len(sum.RetInner) != innerBefore {
		e.changed = true
	}
	sum.Undecided = sum.Undecided[:0]
	for k := range und {
		sum.Undecided = append(sum.Undecided, k)
	}
	sort.Strings(sum.Undecided)
}

func (s *fnState) instr(owner *ssa.Function, in ssa.Instruction, und map[string]bool) {
	switch x := in.(type) {
	case *ssa.Alloc:
		s.set(x, AV{Tag{K: kFresh, Idx: s.e.site(x)}: {}})
	case *ssa.MakeSlice, *ssa.MakeMap, *ssa.MakeChan:
		v := x.(ssa.Value)
		s.set(v, AV{Tag{K: kFresh, Idx: s.e.site(v)}: {}})
	case *ssa.MakeClosure:
		// bind free variables of the closure (analysed inline)
		if f, ok := x.Fn.(*ssa.Function); ok {
			for i, b := range x.Bindings {
				if i < len(f.FreeVars) {
					s.set(f.FreeVars[i], s.val(b))
				}
			}
		}
	case *ssa.FieldAddr:
		s.set(x, s.val(x.X))
	case *ssa.Field:
		if refType(x.Type()) {
			s.set(x, s.val(x.X))
		}
	case *ssa.IndexAddr:
		s.set(x, s.val(x.X))
	case *ssa.Index:
		// element of an array value or string
		if refType(x.Type()) {
			s.set(x, s.val(x.X))
		}
	case *ssa.Slice:
		if _, isStr := x.X.Type().Underlying().(*types.Basic); !isStr {
			s.set(x, s.val(x.X))
		}
	case *ssa.UnOp:
		switch x.Op {
		case token.MUL:
			s.set(x, s.deref(s.val(x.X), x.Type()))
		case token.ARROW:
		default:
			if refType(x.Type()) {
				s.set(x, s.val(x.X))
			}
		}
	case *ssa.Store:
		s.write(s.val(x.Addr), in, "store", nil, false)
		if refType(x.Val.Type()) {
			s.store(s.val(x.Addr), s.val(x.Val))
		}
	case *ssa.MapUpdate:
		self := isRangeSelfStore(x)
		s.write(s.val(x.Map), in, "map update", nil, self)
		both := AV{}
		if refType(x.Key.Type()) {
			both.union(s.val(x.Key))
		}
		if refType(x.Value.Type()) {
			both.union(s.val(x.Value))
		}
		s.store(s.val(x.Map), both)
	case *ssa.Lookup:
		var elem types.Type
		if m, ok := x.X.Type().Underlying().(*types.Map); ok {
			elem = m.Elem()
		}
		if elem != nil && refType(elem) {
			s.set(x, s.deref(s.val(x.X), elem))
		}
	case *ssa.Range:
		s.set(x, s.val(x.X))
	case *ssa.Next:
		// tuple (ok, k, v): approximated on the Extracts below
	case *ssa.Extract:
		switch tup := x.Tuple.(type) {
		case *ssa.Next:
			if rng, ok := tup.Iter.(*ssa.Range); ok && x.Index > 0 && refType(x.Type()) {
				s.set(x, s.deref(s.val(rng.X), x.Type()))
			}
		case *ssa.Lookup:
			if x.Index == 0 {
				if m, ok := tup.X.Type().Underlying().(*types.Map); ok && refType(m.Elem()) {
					s.set(x, s.deref(s.val(tup.X), m.Elem()))
				}
			}
		case *ssa.TypeAssert:
			if x.Index == 0 && refType(x.Type()) {
				s.set(x, s.val(tup.X))
			}
		case *ssa.Call:
			if refType(x.Type()) {
				s.set(x, s.val(tup)) // per-result precision is not needed here
			}
		}
	case *ssa.Phi:
		if refType(x.Type()) {
			for _, ed := range x.Edges {
				s.set(x, s.val(ed))
			}
		}
	case *ssa.Convert:
		// string <-> []byte / []rune conversions copy
		_, fromStr := x.X.Type().Underlying().(*types.Basic)
		_, toSlice := x.Type().Underlying().(*types.Slice)
		if fromStr && toSlice {
			s.set(x, AV{Tag{K: kFresh, Idx: s.e.site(x)}: {}})
		} else if refType(x.Type()) {
			s.set(x, s.val(x.X))
		}
	case *ssa.ChangeType, *ssa.ChangeInterface, *ssa.MakeInterface, *ssa.SliceToArrayPointer:
		v := x.(ssa.Value)
		var ops [4]*ssa.Value
		for _, op := range in.Operands(ops[:0]) {
			if op != nil && *op != nil {
				s.set(v, s.val(*op))
			}
		}
	case *ssa.TypeAssert:
		if !x.CommaOk && refType(x.Type()) {
			s.set(x, s.val(x.X))
		}
	case ssa.CallInstruction:
		s.call(owner, x, und)
	}
}

// isRangeSelfStore recognises m[k] = v where (k, v) is the current element of a
// range over the same m: a store of the value the map already holds.
func isRangeSelfStore(mu *ssa.MapUpdate) bool {
	ke, ok1 := mu.Key.(*ssa.Extract)
	ve, ok2 := mu.Value.(*ssa.Extract)
	if !ok1 || !ok2 || ke.Tuple != ve.Tuple || ke.Index != 1 || ve.Index != 2 {
		return false
	}
	nx, ok := ke.Tuple.(*ssa.Next)
	if !ok {
		return false
	}
	rng, ok := nx.Iter.(*ssa.Range)
	return ok && rng.X == mu.Map
}

// externalEffect classifies a callee outside the module: "ro" (reads its
// arguments only), "w0" (writes through its first argument) or "" (unknown).
func externalEffect(fn *ssa.Function) string {
	pkg := ""
	if fn.Pkg != nil {
		pkg = fn.Pkg.Pkg.Path()
	} else if fn.Object() != nil && fn.Object().Pkg() != nil {
		pkg = fn.Object().Pkg().Path()
	}
	name := fn.Name()
	switch pkg {
	case "sort":
		return "w0"
	case "strings":
		if recv := fn.Signature.Recv(); recv != nil && strings.Contains(recv.Type().String(), "Builder") {
			return "w0"
		}
		return "ro"
	case "regexp", "unicode", "unicode/utf8", "fmt", "errors", "math", "reflect", "strconv", "math/rand", "time", "golang.org/x/sync/singleflight":
		return "ro"
	case "slices":
		switch name {
		case "Sort", "SortFunc", "SortStableFunc", "Reverse":
			return "w0"
		case "Contains", "Index", "IndexFunc", "Equal", "Max", "Min", "Clone":
			return "ro"
		}
	case "maps":
		switch name {
		case "Clone", "Keys", "Values":
			return "ro"
		}
	}
	return ""
}

func (s *fnState) call(owner *ssa.Function, ci ssa.CallInstruction, und map[string]bool) {
	c := ci.Common()
	in := ci.(ssa.Instruction)
	var res ssa.Value
	if call, ok := ci.(*ssa.Call); ok {
		res = call
	}
	arg := func(i int) AV {
		if i < len(c.Args) {
			return s.val(c.Args[i])
		}
		return nil
	}
	if b, ok := c.Value.(*ssa.Builtin); ok {
		switch b.Name() {
		case "append":
			s.write(arg(0), in, "append onto the argument (may write into its spare capacity)", nil, false)
			if res != nil {
				out := AV{}
				out.union(arg(0))
				fresh := Tag{K: kFresh, Idx: s.e.site(res)}
				out.add(fresh)
				s.set(res, out)
				// elements of the source end up in the destination(s)
				if len(c.Args) > 1 {
					if sl, ok := c.Args[1].Type().Underlying().(*types.Slice); ok && refType(sl.Elem()) {
						s.store(out, s.deref(arg(1), sl.Elem()))
					}
				}
				// the elements already in arg0 are in the result too
				if sl, ok := c.Args[0].Type().Underlying().(*types.Slice); ok && refType(sl.Elem()) {
					s.store(AV{fresh: {}}, s.deref(arg(0), sl.Elem()))
				}
			}
		case "copy":
			s.write(arg(0), in, "copy into the argument", nil, false)
			if sl, ok := c.Args[1].Type().Underlying().(*types.Slice); ok && refType(sl.Elem()) {
				s.store(arg(0), s.deref(arg(1), sl.Elem()))
			}
		case "delete":
			s.write(arg(0), in, "delete from the argument map", nil, false)
		case "clear":
			s.write(arg(0), in, "clear of the argument", nil, false)
		}
		return
	}
	if c.IsInvoke() {
		return // interface method on a value we do not track
	}
	callee := core.Canon(c.StaticCallee())
	if callee == nil {
		// call of a function value: a closure of this function (analysed inline) or a
		// user callback (opaque; DESIGN: mutation by callbacks is not decided)
		if res != nil && refType(res.Type()) {
			s.set(res, AV{Tag{K: kOpaque}: {}})
		}
		return
	}
	if _, isClosure := c.Value.(*ssa.MakeClosure); isClosure || callee.Parent() != nil {
		return // inline-analysed closure
	}
	if s.e.P.InModule(callee) && len(callee.Blocks) > 0 {
		cs := s.e.sums[callee]
		if cs == nil {
			s.e.changed = true
			return
		}
		name := s.e.P.FuncName(callee)
		// instantiate write effects
		for _, w := range cs.Writes {
			if w.Param >= len(c.Args) {
				continue
			}
			target := s.shift(arg(w.Param), w.Depth, c.Args[w.Param].Type())
			via := append([]string{name}, w.Via...)
			s.write(target, in, w.What, via, w.SelfStore)
		}
		if res != nil && refType(res.Type()) {
			out := AV{}
			fresh := Tag{K: kFresh, Idx: s.e.site(res)}
			for t := range cs.Ret {
				switch t.K {
				case kParam:
					if t.Idx < len(c.Args) {
						out.union(s.shift(arg(t.Idx), t.Depth, nil))
					}
				case kFresh:
					out.add(fresh)
				case kOpaque:
					out.add(t)
				}
			}
			inner := AV{}
			for t := range cs.RetInner {
				switch t.K {
				case kParam:
					if t.Idx < len(c.Args) {
						inner.union(s.shift(arg(t.Idx), t.Depth, nil))
					}
				case kOpaque:
					inner.add(t)
				}
			}
			if len(inner) > 0 {
				out.add(fresh)
				s.store(AV{fresh: {}}, inner)
			}
			s.set(res, out)
		}
		return
	}
	// external
	eff := externalEffect(callee)
	switch eff {
	case "w0":
		s.write(arg(0), in, "written by "+callee.String(), nil, false)
	case "ro":
	default:
		for i := range c.Args {
			for t := range arg(i) {
				if t.K == kParam {
					und[fmt.Sprintf("external callee %s receives a reference to parameter %d", callee.String(), t.Idx)] = true
				}
			}
		}
	}
	if res != nil && refType(res.Type()) {
		s.set(res, AV{Tag{K: kFresh, Idx: s.e.site(res)}: {}})
	}
}

// shift moves tags d levels down (a callee's "depth d below my parameter").
func (s *fnState) shift(av AV, d int, _ types.Type) AV {
	if d == 0 {
		return av
	}
	out := AV{}
	cur := av
	for i := 0; i < d; i++ {
		next := AV{}
		for t := range cur {
			switch t.K {
			case kParam:
				next.add(Tag{K: kParam, Idx: t.Idx, Depth: t.Depth + 1})
			case kFresh:
				next.union(s.e.sites[t.Idx].content)
			case kOpaque:
				next.add(t)
			}
		}
		cur = next
	}
	out.union(cur)
	return out
}

// SiteOf exposes the allocation instruction of a fresh tag (for diagnostics).
func (e *Engine) SiteOf(t Tag) ssa.Value {
	if t.K == kFresh && t.Idx < len(e.sites) {
		return e.sites[t.Idx].instr
	}
	return nil
}

// IsParam reports a tag that denotes parameter storage at the given depth.
func (t Tag) IsParam() bool { return t.K == kParam }
