// gogucheck decides the gogu properties C01..C20 by static analysis of /repo's
// current working tree. See /verif/DESIGN.md.
package main

import (
	"flag"
	"fmt"
	"os"
	"runtime/debug"
	"strconv"

	"gogucheck/core"
	"gogucheck/props"
)

func main() {
	prop := flag.String("property", "", "property id (C01..C20)")
	tier := flag.String("tier", "quick", "quick|thorough")
	repo := flag.String("repo", "/repo", "module root to analyse")
	out := flag.String("out", "/verif/evidence", "evidence directory")
	known := flag.String("known", "/verif/known_findings.json", "known findings file")
	list := flag.Bool("list", false, "list properties with a check")
	flag.Parse()
	if *list {
		for _, id := range props.IDs() {
			fmt.Println(id)
		}
		return
	}
	seed := int64(0)
	if s := os.Getenv("VERIF_SEED"); s != "" {
		if n, err := strconv.ParseInt(s, 10, 64); err == nil {
			seed = n
		}
	}
	c := props.Get(*prop)
	if c == nil {
		fmt.Fprintf(os.Stderr, "no check for property %q\n", *prop)
		os.Exit(2)
	}
	os.Exit(run(c, *tier, *repo, *out, *known, seed))
}

func run(c *props.Check, tier, repo, out, known string, seed int64) (code int) {
	r := core.NewReport(c.ID, tier, seed)
	r.Explanation = c.Explanation
	r.Assumptions = c.Assumptions
	r.NotDecided = c.NotDecided
	findings, err := core.LoadFindings(known)
	if err != nil {
		fmt.Println("CHECKER-FAILURE", err)
		return 2
	}
	defer func() {
		if x := recover(); x != nil {
			fmt.Printf("CHECKER-FAILURE property=%s panic: %v\n%s\n", c.ID, x, debug.Stack())
			r.Fatal("panic in engine: %v", x)
			code = r.Finish(out, findings)
			if code == 0 {
				code = 2
			}
		}
	}()
	p, err := core.Load(repo, nil, core.MinPackages)
	if err != nil {
		fmt.Println("CHECKER-FAILURE", err)
		r.Fatal("%v", err)
		r.Finish(out, findings)
		return 2
	}
	r.Extra["packages"] = len(p.Pkgs)
	r.Extra["source_functions"] = len(p.Funcs)
	c.Run(p, r)
	return r.Finish(out, findings)
}
