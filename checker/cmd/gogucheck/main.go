// gogucheck decides the gogu properties C01..C20 by static analysis of /repo's
// current working tree. See /verif/DESIGN.md.
package main

import (
	"encoding/json"
	"flag"
	"fmt"
	"os"
	"os/exec"
	"path/filepath"
	"runtime/debug"
	"sort"
	"strconv"
	"strings"
	"sync"

	"gogucheck/core"
	"gogucheck/mutants"
	"gogucheck/norm"
	"gogucheck/props"
)

func main() {
	prop := flag.String("property", "", "property id (C01..C20)")
	tier := flag.String("tier", "quick", "quick|thorough")
	repo := flag.String("repo", "/repo", "module root to analyse")
	out := flag.String("out", "/verif/evidence", "evidence directory")
	known := flag.String("known", "/verif/known_findings.json", "known findings file")
	list := flag.Bool("list", false, "list properties with a check")
	mutant := flag.String("mutant", "", "run the property check on one seeded variant (overlay only) and report whether it is detected")
	selftest := flag.Bool("selftest", false, "run every seeded variant of -property (or of all properties) and print the kill table")
	replay := flag.String("replay", "", "replay file: re-run the rules and report, per recorded key, whether it still violates")
	seedDir := flag.String("seedpatch", "", "directory of one kept sub-agent seed (patch.diff, meta.json): apply it through an overlay and report whether the property's rules fire")
	mkinv := flag.Bool("mkinventory", false, "print the function inventory (name -> signature shape) of -repo as JSON")
	shownorm := flag.Bool("shownorm", false, "print the steps of the normalisation pass on -repo and the rewritten files")
	overlayJSON := flag.String("overlay", "", "a go-build style overlay file ({\"Replace\": {path: replacement}}): analyse -property on the tree with those files replaced and print SEED CAUGHT/MISSED (checker validation only)")
	flag.Parse()
	normDir = filepath.Join(*out, "normalised")
	if *overlayJSON != "" {
		os.Exit(runOverlay(*overlayJSON, *prop, *repo, *known))
	}
	if *mkinv {
		inv, err := norm.Inventory(*repo)
		if err != nil {
			fmt.Println("CHECKER-FAILURE", err)
			os.Exit(2)
		}
		srcs, err := norm.Sources(*repo)
		if err != nil {
			fmt.Println("CHECKER-FAILURE", err)
			os.Exit(2)
		}
		files, err := norm.Files(*repo)
		if err != nil {
			fmt.Println("CHECKER-FAILURE", err)
			os.Exit(2)
		}
		structs, err := norm.Structs(*repo)
		if err != nil {
			fmt.Println("CHECKER-FAILURE", err)
			os.Exit(2)
		}
		edges, err := norm.Edges(*repo)
		if err != nil {
			fmt.Println("CHECKER-FAILURE", err)
			os.Exit(2)
		}
		b, _ := json.MarshalIndent(map[string]any{"inventory": inv, "sources": srcs, "files": files, "structs": structs, "edges": edges}, "", " ")
		fmt.Println(string(b))
		return
	}
	if *shownorm {
		res, err := norm.Normalise(*repo, nil, norm.Confirmed(), norm.ConfirmedSources(), norm.ConfirmedStructs(), norm.ConfirmedEdges())
		if err != nil {
			fmt.Println("CHECKER-FAILURE", err)
			os.Exit(2)
		}
		for _, n := range res.Notes {
			fmt.Println("note:", n)
		}
		for _, f := range res.Changed {
			fmt.Printf("==== %s\n%s\n", f, res.Overlay[f])
		}
		return
	}
	if *list {
		for _, id := range props.IDs() {
			fmt.Println(id)
		}
		return
	}
	seed := int64(0)
	if s := os.Getenv("VERIF_SEED"); s != "" {
		if n, err := strconv.ParseInt(s, 10, 64); err == nil {
			seed = n
		}
	}
	if *mutant != "" {
		os.Exit(runMutant(*mutant, *repo, *known))
	}
	if *seedDir != "" {
		os.Exit(runSeedPatch(*seedDir, *prop, *repo, *known))
	}
	if *selftest {
		ids := props.IDs()
		if *prop != "" {
			ids = []string{*prop}
		}
		res := selfTest(ids, *repo, *known, seed)
		bad := 0
		for _, r := range res {
			fmt.Printf("%-10s %-40s %s\n", r.Status, r.ID, r.Detail)
			if r.Status == "SURVIVED" || r.Status == "ERROR" || r.Status == "FALSE-ALARM" {
				bad++
			}
		}
		if bad > 0 {
			os.Exit(2)
		}
		return
	}
	c := props.Get(*prop)
	if c == nil {
		fmt.Fprintf(os.Stderr, "no check for property %q\n", *prop)
		os.Exit(2)
	}
	if *replay != "" {
		os.Exit(runReplay(c, *replay, *repo, *known))
	}
	os.Exit(run(c, *tier, *repo, *out, *known, seed))
}

var normDir string

// analyse loads the tree (with an optional overlay) and runs one property's rules.
func analyse(c *props.Check, tier, repo string, overlay map[string][]byte, seed int64) (r *core.Report, err error) {
	r = core.NewReport(c.ID, tier, seed)
	r.Explanation = c.Explanation
	r.Assumptions = c.Assumptions
	r.NotDecided = c.NotDecided
	defer func() {
		if x := recover(); x != nil {
			// a rule met a construct it was not written for (an anchor changed its
			// signature, ...): the property is undecided on this tree, which fails the
			// check like any other undecided construct; the stack is kept for diagnosis
			fmt.Printf("note: rule evaluation aborted property=%s: %v\n%s\n", c.ID, x, debug.Stack())
			r.Undecided(core.Diag{Rule: "ENGINE", Func: "-", Object: "rule evaluation", Pos: "-", Reason: fmt.Sprintf("the rules could not be evaluated on this tree (%v): an anchor function no longer has the shape they were written for", x)})
		}
	}()
	// bring new unexported helpers and renamed helpers back to the confirmed
	// function inventory (identity on a tree that adds no function)
	nres, nerr := norm.Normalise(repo, overlay, norm.Confirmed(), norm.ConfirmedSources(), norm.ConfirmedStructs(), norm.ConfirmedEdges())
	if nerr != nil {
		return r, fmt.Errorf("normalisation: %v", nerr)
	}
	if len(nres.Notes) > 0 {
		r.Extra["normalisation"] = nres.Notes
		for _, n := range nres.Notes {
			fmt.Println("note: normalisation:", n)
		}
	}
	if len(nres.Changed) > 0 {
		overlay = nres.Overlay
		var rels []string
		for _, f := range nres.Changed {
			rel, _ := filepath.Rel(repo, f)
			rels = append(rels, rel)
			if normDir != "" && tier != "variant" {
				dst := filepath.Join(normDir, rel)
				os.MkdirAll(filepath.Dir(dst), 0o755)
				tmp := fmt.Sprintf("%s.%d", dst, os.Getpid())
				if os.WriteFile(tmp, nres.Overlay[f], 0o644) == nil {
					os.Rename(tmp, dst)
				}
			}
		}
		r.Extra["normalised_files"] = rels
		fmt.Printf("note: positions in %v refer to the normalised source written under %s\n", rels, normDir)
	}
	p, err := core.Load(repo, overlay, core.MinPackages)
	if err != nil {
		return r, err
	}
	r.Extra["packages"] = len(p.Pkgs)
	r.Extra["source_functions"] = len(p.Funcs)
	c.Run(p, r)
	return r, nil
}

func run(c *props.Check, tier, repo, out, known string, seed int64) int {
	findings, err := core.LoadFindings(known)
	if err != nil {
		fmt.Println("CHECKER-FAILURE", err)
		return 2
	}
	r, err := analyse(c, tier, repo, nil, seed)
	if err != nil {
		fmt.Println("CHECKER-FAILURE", err)
		r.Fatal("%v", err)
		r.Finish(out, findings)
		return 2
	}
	if tier == "thorough" {
		thorough(c, r, repo, known, findings, seed)
	}
	return r.Finish(out, findings)
}

// thorough adds the checker's self-validation: every seeded variant of the property
// must be reported at the rewritten construct. Skipped when the tree itself violates
// the property (the run fails anyway).
func thorough(c *props.Check, r *core.Report, repo, known string, findings []core.Finding, seed int64) {
	if r.NewViolations(findings) > 0 {
		r.Extra["variants"] = "skipped: the tree violates the property"
		return
	}
	res := selfTest([]string{c.ID}, repo, known, seed)
	tried, killed, na := 0, 0, 0
	var table []map[string]string
	for _, x := range res {
		table = append(table, map[string]string{"id": x.ID, "status": x.Status, "detail": x.Detail})
		switch x.Status {
		case "KILLED", "CLEAN":
			tried++
			killed++
		case "NA":
			na++
		default:
			tried++
			r.Fatal("SELFTEST-INSENSITIVE variant %s: %s %s", x.ID, x.Status, x.Detail)
		}
	}
	r.Extra["variants"] = map[string]any{"tried": tried, "killed": killed, "not_applicable_on_this_tree": na, "table": table}
	fmt.Printf("selftest property=%s variants tried=%d killed=%d na=%d\n", c.ID, tried, killed, na)
	// the kept sub-agent changes of this property (independent of the checker's author):
	// each is applied to the current tree through an overlay; informational.
	seeds := seedTest(c.ID, repo, known)
	caught, missed, sna := 0, 0, 0
	var st []map[string]string
	for _, x := range seeds {
		st = append(st, map[string]string{"id": x.ID, "status": x.Status, "detail": x.Detail})
		switch x.Status {
		case "CAUGHT":
			caught++
		case "NA":
			sna++
		default:
			missed++
			fmt.Printf("info: sub-agent seed %s is not reported by %s on this tree: %s\n", x.ID, c.ID, x.Detail)
		}
	}
	r.Extra["subagent_seeds"] = map[string]any{"caught": caught, "missed": missed, "not_applicable_on_this_tree": sna, "table": st}
	fmt.Printf("seeds property=%s caught=%d missed=%d na=%d\n", c.ID, caught, missed, sna)
	// the kept behaviour-preserving refactorings (written by sub-agents that never saw
	// the checker): the rules must stay silent on each; informational.
	silent, alarm, rna := 0, 0, 0
	var rt []map[string]string
	for _, x := range refactorTest(c.ID, repo, known) {
		switch x.Status {
		case "MISSED":
			silent++
		case "NA":
			rna++
		default:
			alarm++
			rt = append(rt, map[string]string{"id": x.ID, "status": "ALARM", "detail": x.Detail})
			fmt.Printf("info: %s raises a diagnostic on the behaviour-preserving refactoring %s: %s\n", c.ID, x.ID, x.Detail)
		}
	}
	r.Extra["refactorings"] = map[string]any{"silent": silent, "alarm": alarm, "not_applicable_on_this_tree": rna, "alarms": rt}
	fmt.Printf("refactorings property=%s silent=%d alarm=%d na=%d\n", c.ID, silent, alarm, rna)
}

// seedTest runs every kept sub-agent seed of the property in a subprocess.
func seedTest(id, repo, known string) []mutRes {
	return patchTest(filepath.Join(filepath.Dir(known), "seeded"), id+"-", id, repo, known)
}

// refactorTest runs every kept behaviour-preserving refactoring against the rules of
// one property: each must stay silent ("MISSED" = no diagnostic).
func refactorTest(id, repo, known string) []mutRes {
	return patchTest(filepath.Join(filepath.Dir(known), "refactorings"), "", id, repo, known)
}

func patchTest(root, prefix, id, repo, known string) []mutRes {
	ents, _ := os.ReadDir(root)
	var dirs []string
	for _, e := range ents {
		if e.IsDir() && strings.HasPrefix(e.Name(), prefix) {
			dirs = append(dirs, filepath.Join(root, e.Name()))
		}
	}
	sort.Strings(dirs)
	self, _ := os.Executable()
	out := make([]mutRes, len(dirs))
	var wg sync.WaitGroup
	sem := make(chan struct{}, 12)
	for i := range dirs {
		wg.Add(1)
		go func(i int) {
			defer wg.Done()
			sem <- struct{}{}
			defer func() { <-sem }()
			b, _ := exec.Command(self, "-seedpatch", dirs[i], "-property", id, "-repo", repo, "-known", known).CombinedOutput()
			lines := strings.Split(strings.TrimSpace(string(b)), "\n")
			last := lines[len(lines)-1]
			stt := "ERROR"
			for _, k := range []string{"CAUGHT", "MISSED", "NA"} {
				if strings.HasPrefix(last, "SEED "+k) {
					stt = k
				}
			}
			out[i] = mutRes{ID: filepath.Base(dirs[i]), Status: stt, Detail: strings.TrimSpace(strings.TrimPrefix(last, "SEED "+stt))}
		}(i)
	}
	wg.Wait()
	return out
}

// runSeedPatch applies a kept patch.diff to copies of the files it touches (in a
// temporary directory outside /repo and /verif, removed at once), loads the tree
// with those files overlaid and reports whether the property's rules fire.
func runSeedPatch(dir, prop, repo, known string) int {
	c := props.Get(prop)
	if c == nil {
		fmt.Println("SEED NA no check for", prop)
		return 4
	}
	patch, err := os.ReadFile(filepath.Join(dir, "patch.diff"))
	if err != nil {
		fmt.Println("SEED NA", err)
		return 4
	}
	var files []string
	for _, l := range strings.Split(string(patch), "\n") {
		if strings.HasPrefix(l, "+++ b/") {
			files = append(files, strings.TrimPrefix(l, "+++ b/"))
		}
	}
	tmp, err := os.MkdirTemp("", "gogucheck-seed-")
	if err != nil {
		fmt.Println("SEED NA", err)
		return 4
	}
	defer os.RemoveAll(tmp)
	for _, f := range files {
		src, err := os.ReadFile(filepath.Join(repo, f))
		if err != nil {
			continue // a file the patch creates
		}
		os.MkdirAll(filepath.Dir(filepath.Join(tmp, f)), 0o755)
		os.WriteFile(filepath.Join(tmp, f), src, 0o644)
	}
	cmd := exec.Command("git", "apply", "--unsafe-paths", "--directory="+tmp, filepath.Join(dir, "patch.diff"))
	cmd.Dir = tmp
	cmd.Env = append(os.Environ(), "GIT_CEILING_DIRECTORIES="+filepath.Dir(tmp))
	if b, err := cmd.CombinedOutput(); err != nil {
		// fall back to patch(1)
		cmd2 := exec.Command("patch", "-p1", "-s", "-i", filepath.Join(dir, "patch.diff"))
		cmd2.Dir = tmp
		if b2, err2 := cmd2.CombinedOutput(); err2 != nil {
			fmt.Printf("SEED NA the patch no longer applies to this tree (%s / %s)\n", strings.TrimSpace(string(b)), strings.TrimSpace(string(b2)))
			return 4
		}
	}
	overlay := map[string][]byte{}
	for _, f := range files {
		b, err := os.ReadFile(filepath.Join(tmp, f))
		if err == nil {
			overlay[filepath.Join(repo, f)] = b
		}
	}
	r, err := analyse(c, "quick", repo, overlay, 0)
	if err != nil {
		fmt.Println("SEED NA the patched tree does not load:", err)
		return 4
	}
	findings, _ := core.LoadFindings(known)
	n := r.NewViolations(findings)
	if n == 0 {
		fmt.Println("SEED MISSED no new diagnostic")
		return 3
	}
	first := ""
	knownKeys := map[string]bool{}
	for _, f := range findings {
		if f.Status == "known" && f.Property == prop {
			knownKeys[f.Key()] = true
		}
	}
	for _, d := range r.Diags() {
		if !knownKeys[d.Key()] {
			first = d.Key() + " @" + d.Pos
			break
		}
	}
	fmt.Printf("SEED CAUGHT %d new diagnostics, first: %s\n", n, first)
	return 0
}

type mutRes struct{ ID, Status, Detail string }

func selfTest(ids []string, repo, known string, seed int64) []mutRes {
	var ms []mutants.M
	for _, id := range ids {
		ms = append(ms, mutants.For(id)...)
	}
	if seed != 0 {
		// the seed only orders the queue
		sort.SliceStable(ms, func(i, j int) bool {
			return (int64(i)*7919+seed)%int64(len(ms)+1) < (int64(j)*7919+seed)%int64(len(ms)+1)
		})
	}
	self, _ := os.Executable()
	out := make([]mutRes, len(ms))
	sem := make(chan struct{}, 12)
	var wg sync.WaitGroup
	for i := range ms {
		wg.Add(1)
		go func(i int) {
			defer wg.Done()
			sem <- struct{}{}
			defer func() { <-sem }()
			cmd := exec.Command(self, "-mutant", ms[i].ID, "-repo", repo, "-known", known)
			b, err := cmd.CombinedOutput()
			lines := strings.Split(strings.TrimSpace(string(b)), "\n")
			last := lines[len(lines)-1]
			st := "ERROR"
			switch {
			case strings.HasPrefix(last, "MUTANT KILLED"):
				st = "KILLED"
			case strings.HasPrefix(last, "MUTANT SURVIVED"):
				st = "SURVIVED"
			case strings.HasPrefix(last, "MUTANT NA"):
				st = "NA"
			case strings.HasPrefix(last, "MUTANT CLEAN"):
				st = "CLEAN"
			case strings.HasPrefix(last, "MUTANT FALSE-ALARM"):
				st = "FALSE-ALARM"
			}
			_ = err
			detail := last
			if f := strings.Fields(last); len(f) >= 2 {
				detail = strings.TrimSpace(strings.TrimPrefix(last, f[0]+" "+f[1]))
			}
			out[i] = mutRes{ID: ms[i].ID, Status: st, Detail: detail}
		}(i)
	}
	wg.Wait()
	sort.Slice(out, func(i, j int) bool { return out[i].ID < out[j].ID })
	return out
}

// runMutant applies one variant through an overlay and runs its property's rules.
func runMutant(id, repo, known string) int {
	m := mutants.ByID(id)
	if m == nil {
		fmt.Println("MUTANT NA unknown variant", id)
		return 4
	}
	c := props.Get(m.Property)
	if c == nil {
		fmt.Println("MUTANT NA no check for", m.Property)
		return 4
	}
	path := filepath.Join(repo, m.File)
	src, err := os.ReadFile(path)
	if err != nil {
		fmt.Println("MUTANT NA", err)
		return 4
	}
	var mutated string
	if m.Old == "" {
		mutated = string(src) + m.New
	} else {
		if !strings.Contains(string(src), m.Old) {
			fmt.Println("MUTANT NA pattern no longer occurs in", m.File)
			return 4
		}
		mutated = strings.Replace(string(src), m.Old, m.New, 1)
	}
	r, err := analyse(c, "quick", repo, map[string][]byte{path: []byte(mutated)}, 0)
	if err != nil {
		fmt.Println("MUTANT NA variant does not load/type-check on this tree:", err)
		return 4
	}
	findings, _ := core.LoadFindings(known)
	knownKeys := map[string]bool{}
	for _, f := range findings {
		if f.Status == "known" && f.Property == m.Property {
			knownKeys[f.Key()] = true
		}
	}
	var hit []string
	for _, d := range r.Diags() {
		if knownKeys[d.Key()] {
			continue
		}
		fmt.Println("  ", d.String())
		if strings.Contains(d.Key(), m.Expect) {
			hit = append(hit, d.Key()+" @"+d.Pos)
		}
	}
	if m.Negative {
		n := r.NewViolations(findings)
		if n == 0 {
			fmt.Printf("MUTANT CLEAN negative control raised no diagnostic\n")
			return 0
		}
		fmt.Printf("MUTANT FALSE-ALARM negative control raised %d diagnostics\n", n)
		return 3
	}
	if len(hit) > 0 {
		fmt.Printf("MUTANT KILLED %s\n", hit[0])
		return 0
	}
	fmt.Printf("MUTANT SURVIVED expected a new diagnostic containing %q\n", m.Expect)
	return 3
}

// runReplay re-runs the rules and reports, per recorded key, whether it still violates.
func runReplay(c *props.Check, file, repo, known string) int {
	keys, err := core.ReplayKeys(file)
	if err != nil {
		fmt.Println("CHECKER-FAILURE", err)
		return 2
	}
	r, err := analyse(c, "quick", repo, nil, 0)
	if err != nil {
		fmt.Println("CHECKER-FAILURE", err)
		return 2
	}
	now := map[string]core.Diag{}
	for _, d := range r.Diags() {
		now[d.Key()] = d
	}
	code := 0
	for _, k := range keys {
		if d, ok := now[k]; ok {
			fmt.Println("STILL-VIOLATES", d.String())
			code = 1
		} else {
			fmt.Println("NO-LONGER-REPORTED", k)
		}
	}
	if code == 1 {
		fmt.Printf("VIOLATION property=%s replay=%s\n", c.ID, file)
	}
	return code
}

// runOverlay analyses one property on the tree with the files of a go-build overlay
// replaced (used to try mutants without touching /repo).
func runOverlay(file, prop, repo, known string) int {
	c := props.Get(prop)
	if c == nil {
		fmt.Println("SEED NA no check for", prop)
		return 4
	}
	b, err := os.ReadFile(file)
	if err != nil {
		fmt.Println("SEED NA", err)
		return 4
	}
	var ov struct{ Replace map[string]string }
	if err := json.Unmarshal(b, &ov); err != nil {
		fmt.Println("SEED NA", err)
		return 4
	}
	overlay := map[string][]byte{}
	for k, v := range ov.Replace {
		src, err := os.ReadFile(v)
		if err != nil {
			fmt.Println("SEED NA", err)
			return 4
		}
		overlay[k] = src
	}
	normDir = ""
	r, err := analyse(c, "variant", repo, overlay, 0)
	if err != nil {
		fmt.Println("SEED NA the tree does not load:", err)
		return 4
	}
	findings, _ := core.LoadFindings(known)
	if r.NewViolations(findings) == 0 && len(r.Failures()) == 0 {
		fmt.Println("SEED MISSED no new diagnostic")
		return 3
	}
	for _, d := range r.NewDiags(findings) {
		fmt.Println("  ", d.String())
		break
	}
	for _, f := range r.Failures() {
		fmt.Println("  ", f)
		break
	}
	fmt.Println("SEED CAUGHT")
	return 0
}
