// mutgen writes first-order mutants of the non-test sources of a Go module: one
// directory per mutant holding the mutated file, plus an index (JSON lines). It is a
// tool for validating the checker against classic mutation operators; it is not part
// of any registered check.
package main

import (
	"encoding/json"
	"flag"
	"fmt"
	"go/ast"
	"go/parser"
	"go/token"
	"os"
	"path/filepath"
	"sort"
	"strings"
)

type mutant struct {
	ID   int    `json:"id"`
	File string `json:"file"`
	Line int    `json:"line"`
	Op   string `json:"op"`
	From string `json:"from"`
	To   string `json:"to"`
	Func string `json:"func"`
}

func main() {
	repo := flag.String("repo", "/repo", "module root")
	out := flag.String("out", "/tmp/mut", "output directory")
	set := flag.String("set", "classic", "operator set: classic | extended")
	flag.Parse()
	var files []string
	filepath.WalkDir(*repo, func(p string, d os.DirEntry, err error) error {
		if err != nil {
			return nil
		}
		if d.IsDir() {
			n := d.Name()
			if p != *repo && (strings.HasPrefix(n, ".") || n == "testdata" || n == "vendor" || n == "seeded" || n == "refactor") {
				return filepath.SkipDir
			}
			return nil
		}
		if strings.HasSuffix(p, ".go") && !strings.HasSuffix(p, "_test.go") {
			files = append(files, p)
		}
		return nil
	})
	sort.Strings(files)
	os.MkdirAll(*out, 0o755)
	idx, _ := os.Create(filepath.Join(*out, "index.jsonl"))
	defer idx.Close()
	enc := json.NewEncoder(idx)
	id := 0
	for _, f := range files {
		src, err := os.ReadFile(f)
		if err != nil {
			continue
		}
		fset := token.NewFileSet()
		af, err := parser.ParseFile(fset, f, src, parser.ParseComments)
		if err != nil {
			continue
		}
		rel, _ := filepath.Rel(*repo, f)
		emit := func(start, end token.Pos, repl, op string, fn string) {
			s, e := fset.Position(start).Offset, fset.Position(end).Offset
			if s < 0 || e > len(src) || s > e {
				return
			}
			id++
			m := mutant{ID: id, File: rel, Line: fset.Position(start).Line, Op: op, From: string(src[s:e]), To: repl, Func: fn}
			if len(m.From) > 120 {
				m.From = m.From[:117] + "..."
			}
			dir := filepath.Join(*out, fmt.Sprintf("%05d", id))
			os.MkdirAll(filepath.Join(dir, filepath.Dir(rel)), 0o755)
			nb := append([]byte{}, src[:s]...)
			nb = append(nb, []byte(repl)...)
			nb = append(nb, src[e:]...)
			os.WriteFile(filepath.Join(dir, rel), nb, 0o644)
			enc.Encode(m)
		}
		for _, d := range af.Decls {
			fd, ok := d.(*ast.FuncDecl)
			if !ok || fd.Body == nil {
				continue
			}
			fname := fd.Name.Name
			if fd.Recv != nil && len(fd.Recv.List) == 1 {
				t := fd.Recv.List[0].Type
				if s, ok := t.(*ast.StarExpr); ok {
					t = s.X
				}
				if ix, ok := t.(*ast.IndexExpr); ok {
					t = ix.X
				}
				if ix, ok := t.(*ast.IndexListExpr); ok {
					t = ix.X
				}
				if id, ok := t.(*ast.Ident); ok {
					fname = id.Name + "." + fname
				}
			}
			text := func(n ast.Node) string {
				return string(src[fset.Position(n.Pos()).Offset:fset.Position(n.End()).Offset])
			}
			if *set == "extended" {
				ast.Inspect(fd.Body, func(n ast.Node) bool {
					switch x := n.(type) {
					case *ast.BinaryExpr:
						if x.Op == token.LAND || x.Op == token.LOR {
							emit(x.Pos(), x.End(), text(x.X), "drop-operand", fname)
							emit(x.Pos(), x.End(), text(x.Y), "drop-operand", fname)
						}
					case *ast.SliceExpr:
						if x.Low != nil {
							emit(x.Low.Pos(), x.Low.End(), "("+text(x.Low)+")+1", "slice-bound", fname)
						} else {
							emit(x.Lbrack+1, x.Lbrack+1, "1", "slice-bound", fname)
						}
						if x.High != nil {
							emit(x.High.Pos(), x.High.End(), "("+text(x.High)+")-1", "slice-bound", fname)
							emit(x.High.Pos(), x.High.End(), "("+text(x.High)+")+1", "slice-bound", fname)
						}
					case *ast.IndexExpr:
						if _, isLit := x.Index.(*ast.BasicLit); !isLit {
							if id, ok := x.Index.(*ast.Ident); !ok || (id.Name != "T" && id.Name != "K" && id.Name != "V" && id.Name != "string" && id.Name != "int" && id.Name != "any") {
								emit(x.Index.Pos(), x.Index.End(), "("+text(x.Index)+")+1", "index", fname)
								emit(x.Index.Pos(), x.Index.End(), "("+text(x.Index)+")-1", "index", fname)
							}
						}
					case *ast.CallExpr:
						if id, ok := x.Fun.(*ast.Ident); ok && id.Name == "len" && len(x.Args) == 1 {
							emit(x.Pos(), x.End(), "("+text(x)+"-1)", "len", fname)
							emit(x.Pos(), x.End(), "("+text(x)+"+1)", "len", fname)
						}
						if len(x.Args) >= 2 {
							for i := 0; i+1 < len(x.Args); i++ {
								a, b := x.Args[i], x.Args[i+1]
								if text(a) != text(b) {
									emit(a.Pos(), b.End(), text(b)+", "+text(a), "swap-args", fname)
								}
							}
						}
					case *ast.IfStmt:
						// drop the whole statement, or its else branch
						emit(x.Pos(), x.End(), "", "remove-if", fname)
						if x.Else != nil {
							emit(x.Body.End(), x.Else.End(), "", "remove-else", fname)
						}
					case *ast.ReturnStmt:
						for _, r := range x.Results {
							if id, ok := r.(*ast.Ident); ok && id.Name == "nil" {
								continue
							}
							if _, ok := r.(*ast.BasicLit); ok {
								continue
							}
						}
					case *ast.RangeStmt:
						// visit one element less
						emit(x.X.Pos(), x.X.End(), "("+text(x.X)+")[1:]", "range-skip-first", fname)
					case *ast.AssignStmt:
						// the two sides of a parallel assignment, or op-assign direction
						switch x.Tok {
						case token.ADD_ASSIGN:
							emit(x.TokPos, x.TokPos+2, "-=", "op-assign", fname)
						case token.SUB_ASSIGN:
							emit(x.TokPos, x.TokPos+2, "+=", "op-assign", fname)
						}
					}
					return true
				})
				continue
			}
			ast.Inspect(fd.Body, func(n ast.Node) bool {
				switch x := n.(type) {
				case *ast.BinaryExpr:
					swaps := map[token.Token][]token.Token{
						token.LSS: {token.LEQ, token.GTR}, token.LEQ: {token.LSS}, token.GTR: {token.GEQ, token.LSS}, token.GEQ: {token.GTR},
						token.EQL: {token.NEQ}, token.NEQ: {token.EQL}, token.LAND: {token.LOR}, token.LOR: {token.LAND},
						token.ADD: {token.SUB}, token.SUB: {token.ADD},
					}
					for _, to := range swaps[x.Op] {
						emit(x.OpPos, x.OpPos+token.Pos(len(x.Op.String())), to.String(), "binop", fname)
					}
				case *ast.BasicLit:
					if x.Kind == token.INT {
						switch x.Value {
						case "0":
							emit(x.Pos(), x.End(), "1", "const", fname)
						case "1":
							emit(x.Pos(), x.End(), "0", "const", fname)
							emit(x.Pos(), x.End(), "2", "const", fname)
						case "2":
							emit(x.Pos(), x.End(), "1", "const", fname)
						}
					}
				case *ast.IfStmt:
					emit(x.Cond.Pos(), x.Cond.End(), "!("+text(x.Cond)+")", "negate-if", fname)
				case *ast.ForStmt:
					if x.Cond != nil {
						emit(x.Cond.Pos(), x.Cond.End(), "!("+text(x.Cond)+")", "negate-for", fname)
					}
				case *ast.UnaryExpr:
					if x.Op == token.NOT {
						emit(x.Pos(), x.End(), "("+text(x.X)+")", "drop-not", fname)
					}
				case *ast.ExprStmt:
					if _, ok := x.X.(*ast.CallExpr); ok {
						emit(x.Pos(), x.End(), "", "remove-call", fname)
						t := text(x)
						switch {
						case strings.HasSuffix(t, ".Lock()"):
							emit(x.Pos(), x.End(), strings.TrimSuffix(t, ".Lock()")+".RLock()", "lock-to-rlock", fname)
						case strings.HasSuffix(t, ".Unlock()"):
							emit(x.Pos(), x.End(), strings.TrimSuffix(t, ".Unlock()")+".RUnlock()", "lock-to-rlock", fname)
						}
					}
				case *ast.DeferStmt:
					emit(x.Pos(), x.End(), "", "remove-defer", fname)
				case *ast.IncDecStmt:
					emit(x.Pos(), x.End(), "", "remove-incdec", fname)
					if x.Tok == token.INC {
						emit(x.TokPos, x.TokPos+2, "--", "incdec", fname)
					} else {
						emit(x.TokPos, x.TokPos+2, "++", "incdec", fname)
					}
				case *ast.AssignStmt:
					if x.Tok != token.DEFINE {
						emit(x.Pos(), x.End(), "", "remove-assign", fname)
					}
				case *ast.BranchStmt:
					if x.Label == nil {
						switch x.Tok {
						case token.BREAK:
							emit(x.Pos(), x.End(), "continue", "branch", fname)
						case token.CONTINUE:
							emit(x.Pos(), x.End(), "break", "branch", fname)
						}
					}
				case *ast.ReturnStmt:
					for _, r := range x.Results {
						if id, ok := r.(*ast.Ident); ok {
							switch id.Name {
							case "true":
								emit(id.Pos(), id.End(), "false", "ret-bool", fname)
							case "false":
								emit(id.Pos(), id.End(), "true", "ret-bool", fname)
							}
						}
					}
				}
				return true
			})
		}
	}
	fmt.Println("mutants:", id)
}
