package path

import (
	"go/token"
	"sort"
	"strings"

	"golang.org/x/tools/go/ssa"

	"gogucheck/core"
)

// NilFacts maps SSA values to "is non-nil".
type NilFacts map[ssa.Value]bool

func (f NilFacts) clone() NilFacts {
	c := make(NilFacts, len(f)+1)
	for k, v := range f {
		c[k] = v
	}
	return c
}

func (f NilFacts) key() string {
	var ks []string
	for k, v := range f {
		s := k.Name() + "=0"
		if v {
			s = k.Name() + "=1"
		}
		ks = append(ks, s)
	}
	sort.Strings(ks)
	return strings.Join(ks, ",")
}

// NilTestOf decomposes an If condition into (x, trueMeansNonNil).
func NilTestOf(iff *ssa.If) (ssa.Value, bool, bool) {
	cd, ok := CondOf(iff)
	if !ok || !(cd.Op == token.EQL || cd.Op == token.NEQ) {
		return nil, false, false
	}
	x := cd.X
	if IsNil(x) {
		x = cd.Y
	} else if !IsNil(cd.Y) {
		return nil, false, false
	}
	nonNilOnTrue := (cd.Op == token.NEQ) != cd.Neg
	return x, nonNilOnTrue, true
}

// WalkFeasible explores the (block, nil-facts) states of fn reachable from the entry.
// Branches on nil tests refine the facts; a branch contradicting the facts, or the
// return summary of the callee that produced the values (excl: pairs of results of
// which at most one is non-nil), is not followed. visit is called once per state.
func WalkFeasible(fn *ssa.Function, excl func(callee *ssa.Function) [][2]int, visit func(b *ssa.BasicBlock, facts NilFacts)) {
	if len(fn.Blocks) == 0 {
		return
	}
	type st struct {
		b *ssa.BasicBlock
		f NilFacts
	}
	seen := map[string]bool{}
	work := []st{{fn.Blocks[0], NilFacts{}}}
	learn := func(f NilFacts, x ssa.Value, nonNil bool) {
		f[x] = nonNil
		if !nonNil || excl == nil {
			return
		}
		ex, ok := x.(*ssa.Extract)
		if !ok {
			return
		}
		call, ok := ex.Tuple.(*ssa.Call)
		if !ok {
			return
		}
		callee := core.Canon(call.Call.StaticCallee())
		if callee == nil {
			return
		}
		for _, pr := range excl(callee) {
			other := -1
			if pr[0] == ex.Index {
				other = pr[1]
			} else if pr[1] == ex.Index {
				other = pr[0]
			}
			if other < 0 {
				continue
			}
			for _, ref := range *call.Referrers() {
				if oe, ok := ref.(*ssa.Extract); ok && oe.Index == other {
					f[oe] = false
				}
			}
		}
	}
	for len(work) > 0 {
		s := work[len(work)-1]
		work = work[:len(work)-1]
		k := itoa(s.b.Index) + "|" + s.f.key()
		if seen[k] {
			continue
		}
		seen[k] = true
		visit(s.b, s.f)
		if iff := BlockIf(s.b); iff != nil {
			if x, nonNilOnTrue, ok := NilTestOf(iff); ok {
				if known, has := s.f[x]; has {
					if known == nonNilOnTrue {
						work = append(work, st{s.b.Succs[0], s.f})
					} else {
						work = append(work, st{s.b.Succs[1], s.f})
					}
					continue
				}
				tf, ff := s.f.clone(), s.f.clone()
				learn(tf, x, nonNilOnTrue)
				learn(ff, x, !nonNilOnTrue)
				work = append(work, st{s.b.Succs[0], tf}, st{s.b.Succs[1], ff})
				continue
			}
		}
		for _, succ := range s.b.Succs {
			work = append(work, st{succ, s.f})
		}
	}
}

func itoa(i int) string {
	if i == 0 {
		return "0"
	}
	var b [12]byte
	p := len(b)
	for i > 0 {
		p--
		b[p] = byte('0' + i%10)
		i /= 10
	}
	return string(b[p:])
}
