// Package path holds engine E4's building blocks: path rules on the SSA
// control-flow graph (dominance by a branch edge, must-pass-through, call
// counting on the acyclic condensation, loop membership) and small helpers to
// identify values (origins through phis and conversions, constants, callees).
package path

import (
	"fmt"
	"go/constant"
	"go/token"
	"go/types"
	"sort"
	"strings"

	"golang.org/x/tools/go/ssa"

	"gogucheck/core"
)

// Instrs lists every instruction of fn (not of its closures) in block order.
func Instrs(fn *ssa.Function) []ssa.Instruction {
	var out []ssa.Instruction
	for _, b := range fn.Blocks {
		out = append(out, b.Instrs...)
	}
	return out
}

// Reachable blocks from the entry, ignoring the recover block.
func Reachable(fn *ssa.Function) map[*ssa.BasicBlock]bool {
	seen := map[*ssa.BasicBlock]bool{}
	if len(fn.Blocks) == 0 {
		return seen
	}
	var visit func(b *ssa.BasicBlock)
	visit = func(b *ssa.BasicBlock) {
		if seen[b] {
			return
		}
		seen[b] = true
		for _, s := range b.Succs {
			visit(s)
		}
	}
	visit(fn.Blocks[0])
	return seen
}

// EdgeDominates reports whether every path from the entry to target passes
// through the edge from -> from.Succs[idx].
func EdgeDominates(from *ssa.BasicBlock, idx int, target *ssa.BasicBlock) bool {
	if idx >= len(from.Succs) {
		return false
	}
	s := from.Succs[idx]
	if !s.Dominates(target) {
		return false
	}
	// both successors identical: the edge does not discriminate
	if len(from.Succs) == 2 && from.Succs[0] == from.Succs[1] {
		return false
	}
	for _, p := range s.Preds {
		if p == from {
			continue
		}
		if !s.Dominates(p) { // another way into s that is not a back edge
			return false
		}
	}
	return true
}

// Cond describes a comparison feeding an If.
type Cond struct {
	If   *ssa.If
	Op   token.Token
	X, Y ssa.Value
	Neg  bool // condition is !(X Op Y)
}

// CondOf decomposes the condition of an If into a comparison (through NOT).
func CondOf(iff *ssa.If) (Cond, bool) {
	c := Cond{If: iff}
	v := iff.Cond
	for {
		if u, ok := v.(*ssa.UnOp); ok && u.Op == token.NOT {
			c.Neg = !c.Neg
			v = u.X
			continue
		}
		break
	}
	if b, ok := v.(*ssa.BinOp); ok {
		switch b.Op {
		case token.EQL, token.NEQ, token.LSS, token.LEQ, token.GTR, token.GEQ:
			c.Op, c.X, c.Y = b.Op, b.X, b.Y
			return c, true
		}
	}
	return c, false
}

// BlockIf returns the If terminating b, if any.
func BlockIf(b *ssa.BasicBlock) *ssa.If {
	if len(b.Instrs) == 0 {
		return nil
	}
	iff, _ := b.Instrs[len(b.Instrs)-1].(*ssa.If)
	return iff
}

// Guards lists the (If, successor index) pairs whose edge dominates target.
type Guard struct {
	If  *ssa.If
	Idx int // 0 = true edge, 1 = false edge
	// Threaded: the condition is a boolean flag merged from constants and the
	// incoming edge that sets it was resolved; the guards of that edge are listed
	// as well and say what the flag stands for.
	Threaded bool
	// Synth: not a branch of the function but a fact obtained by threading: the value
	// If.Cond (an If made up for the purpose, not attached to a block) has the truth
	// value Idx says on every path to the target; Blk is the block it came from.
	Synth bool
	Blk   *ssa.BasicBlock
}

func Guards(fn *ssa.Function, target *ssa.BasicBlock) []Guard {
	var out []Guard
	seen := map[Guard]bool{}
	seenSynth := map[string]bool{}
	var collect func(target *ssa.BasicBlock, depth int)
	// thread: the boolean value v is known to be `truth` on the paths considered; when v
	// is a flag merged from several edges and exactly one edge can deliver that truth
	// value, the paths came along that edge: its guards hold, and when the edge carries a
	// computed value (the `b` of `a && b`) that value has the truth in question.
	var thread func(v ssa.Value, truth bool, depth int) bool
	thread = func(v ssa.Value, truth bool, depth int) bool {
		if depth >= 5 {
			return false
		}
		pb, pi, val, ok := flagEdge(v, truth)
		if !ok {
			return false
		}
		if pif := BlockIf(pb); pif != nil && len(pb.Succs) == 2 && pb.Succs[0] != pb.Succs[1] {
			tg := Guard{If: pif, Idx: pi}
			if !seen[tg] {
				seen[tg] = true
				out = append(out, tg)
			}
		}
		if val != nil {
			// strip negations so that Idx says which way the comparison goes
			t := truth
			vv := val
			for {
				if u, ok := vv.(*ssa.UnOp); ok && u.Op == token.NOT {
					t = !t
					vv = u.X
					continue
				}
				break
			}
			idx := 1
			if t {
				idx = 0
			}
			key := fmt.Sprintf("%p/%d", vv, idx)
			if !seenSynth[key] {
				seenSynth[key] = true
				threaded := thread(vv, t, depth+1)
				out = append(out, Guard{If: &ssa.If{Cond: vv}, Idx: idx, Blk: pb, Synth: true, Threaded: threaded})
			}
		}
		collect(pb, depth+1)
		return true
	}
	collect = func(target *ssa.BasicBlock, depth int) {
		for _, b := range fn.Blocks {
			iff := BlockIf(b)
			if iff == nil {
				continue
			}
			for idx := 0; idx < 2; idx++ {
				if !EdgeDominates(b, idx, target) {
					continue
				}
				g := Guard{If: iff, Idx: idx}
				if seen[g] {
					continue
				}
				seen[g] = true
				at := len(out)
				out = append(out, g)
				if thread(iff.Cond, idx == 0, depth) {
					out[at].Threaded = true
				}
			}
		}
	}
	collect(target, 0)
	return out
}

// Block is the block whose end the guard describes (for a guard obtained by
// threading a computed flag value: the block the value was delivered from).
func (g Guard) Block() *ssa.BasicBlock {
	if g.Blk != nil {
		return g.Blk
	}
	return g.If.Block()
}

// flagEdge: v (through NOT) is a phi - a boolean flag, or the value of `a && b` /
// `a || b` used as a value - and exactly one incoming edge can deliver the given
// truth value (a constant equal to it, or a computed value). It returns that edge as
// (predecessor block, index of the phi's block among the predecessor's successors)
// and the computed value the edge carries (nil for a constant).
func flagEdge(v ssa.Value, truth bool) (*ssa.BasicBlock, int, ssa.Value, bool) {
	for {
		if u, ok := v.(*ssa.UnOp); ok && u.Op == token.NOT {
			truth = !truth
			v = u.X
			continue
		}
		break
	}
	phi, ok := v.(*ssa.Phi)
	if !ok {
		return nil, 0, nil, false
	}
	cand := -1
	n := 0
	for i, e := range phi.Edges {
		if bv, isC := BoolConst(e); isC {
			if bv == truth {
				cand = i
				n++
			}
			continue
		}
		cand = i
		n++
	}
	if n != 1 {
		return nil, 0, nil, false
	}
	pred := phi.Block().Preds[cand]
	var val ssa.Value
	if _, isC := BoolConst(phi.Edges[cand]); !isC {
		val = phi.Edges[cand]
	}
	for i, sc := range pred.Succs {
		if sc == phi.Block() {
			return pred, i, val, true
		}
	}
	return nil, 0, nil, false
}

// IntConst returns the integer value of a constant.
func IntConst(v ssa.Value) (int64, bool) {
	c, ok := v.(*ssa.Const)
	if !ok || c.Value == nil || c.Value.Kind() != constant.Int {
		return 0, false
	}
	n, exact := constant.Int64Val(c.Value)
	return n, exact
}

func IsNil(v ssa.Value) bool {
	c, ok := v.(*ssa.Const)
	if !ok || c.Value != nil {
		return false
	}
	_, basic := c.Type().Underlying().(*types.Basic)
	return !basic
}

func BoolConst(v ssa.Value) (bool, bool) {
	c, ok := v.(*ssa.Const)
	if !ok || c.Value == nil || c.Value.Kind() != constant.Bool {
		return false, false
	}
	return constant.BoolVal(c.Value), true
}

// Strip removes value-preserving wrappers.
func Strip(v ssa.Value) ssa.Value {
	for {
		switch x := v.(type) {
		case *ssa.ChangeType:
			v = x.X
		case *ssa.ChangeInterface:
			v = x.X
		case *ssa.MakeInterface:
			v = x.X
		default:
			return v
		}
	}
}

// Origins returns the non-phi sources of v (through phis and value-preserving
// conversions).
func Origins(v ssa.Value) []ssa.Value {
	var out []ssa.Value
	seen := map[ssa.Value]bool{}
	var rec func(x ssa.Value)
	rec = func(x ssa.Value) {
		x = Strip(x)
		if seen[x] {
			return
		}
		seen[x] = true
		if p, ok := x.(*ssa.Phi); ok {
			for _, e := range p.Edges {
				rec(e)
			}
			return
		}
		out = append(out, x)
	}
	rec(v)
	return out
}

// StaticCallee returns the canonical (generic) callee of a call.
func StaticCallee(c ssa.CallInstruction) *ssa.Function {
	return core.Canon(c.Common().StaticCallee())
}

// IsCallTo reports whether in is a call of the function pkgPath.name (methods:
// name is "Type.Method" or "(*Type).Method" matched on the last elements).
func IsCallTo(in ssa.Instruction, pkgPath, name string) bool {
	c, ok := in.(ssa.CallInstruction)
	if !ok {
		return false
	}
	f := StaticCallee(c)
	if f == nil {
		return false
	}
	var p *types.Package
	if f.Pkg != nil {
		p = f.Pkg.Pkg
	} else if f.Object() != nil {
		p = f.Object().Pkg()
	}
	if p == nil || p.Path() != pkgPath {
		return false
	}
	if recv := f.Signature.Recv(); recv != nil {
		t := recv.Type()
		if pt, ok := t.(*types.Pointer); ok {
			t = pt.Elem()
		}
		if n, ok := t.(*types.Named); ok {
			return n.Obj().Name()+"."+f.Name() == name
		}
		return false
	}
	return f.Name() == name
}

// CallsOfValue lists the call instructions in fn (and, when deep, in its
// closures) whose callee operand is (an alias of) v: v itself, or a load of a cell
// v was spilled to.
func CallsOfValue(fn *ssa.Function, v ssa.Value, deep bool) []ssa.CallInstruction {
	aliases := Aliases(fn, v, deep)
	var out []ssa.CallInstruction
	var scan func(g *ssa.Function)
	scan = func(g *ssa.Function) {
		for _, b := range g.Blocks {
			for _, in := range b.Instrs {
				if c, ok := in.(ssa.CallInstruction); ok && !c.Common().IsInvoke() {
					if aliases[c.Common().Value] {
						out = append(out, c)
					}
				}
			}
		}
		if deep {
			for _, a := range g.AnonFuncs {
				scan(a)
			}
		}
	}
	scan(fn)
	return out
}

// Aliases computes the set of SSA values that denote the same value as v inside
// fn and its closures: through conversions, phis whose edges are all aliases,
// spills into local cells (Store v -> cell, loads of that cell when every store to
// the cell stores an alias) and closure bindings of such cells or of v itself.
func Aliases(fn *ssa.Function, v ssa.Value, deep bool) map[ssa.Value]bool {
	al := map[ssa.Value]bool{v: true}
	cells := map[ssa.Value]bool{}
	var fns []*ssa.Function
	var collect func(g *ssa.Function)
	collect = func(g *ssa.Function) {
		fns = append(fns, g)
		if deep {
			for _, a := range g.AnonFuncs {
				collect(a)
			}
		}
	}
	collect(fn)
	for changed := true; changed; {
		changed = false
		mark := func(x ssa.Value) {
			if !al[x] {
				al[x] = true
				changed = true
			}
		}
		for _, g := range fns {
			for _, b := range g.Blocks {
				for _, in := range b.Instrs {
					switch x := in.(type) {
					case *ssa.Store:
						if al[x.Val] {
							if a, ok := x.Addr.(*ssa.Alloc); ok && !cells[a] {
								// every store to the cell must store an alias
								all := true
								for _, r := range *a.Referrers() {
									if st, ok := r.(*ssa.Store); ok && st.Addr == a && !al[st.Val] {
										all = false
									}
								}
								if all {
									cells[a] = true
									changed = true
								}
							}
						}
					case *ssa.UnOp:
						if x.Op == token.MUL && cells[x.X] {
							mark(x)
						}
					case *ssa.ChangeType:
						if al[x.X] {
							mark(x)
						}
					case *ssa.MakeInterface:
						if al[x.X] {
							mark(x)
						}
					case *ssa.Phi:
						all := len(x.Edges) > 0
						for _, e := range x.Edges {
							if !al[e] {
								all = false
							}
						}
						if all {
							mark(x)
						}
					case *ssa.MakeClosure:
						if f, ok := x.Fn.(*ssa.Function); ok {
							for i, bnd := range x.Bindings {
								if i >= len(f.FreeVars) {
									continue
								}
								if al[bnd] {
									mark(f.FreeVars[i])
								}
								if cells[bnd] && !cells[f.FreeVars[i]] {
									cells[f.FreeVars[i]] = true
									changed = true
								}
							}
						}
					}
				}
			}
		}
	}
	return al
}

// MaxCount computes, over all paths from the entry of fn to any exit, the maximal
// number of instructions satisfying pred; Unbounded when one lies on a cycle.
const Unbounded = 1 << 30

func MaxCount(fn *ssa.Function, pred func(ssa.Instruction) bool) int {
	n := len(fn.Blocks)
	if n == 0 {
		return 0
	}
	reach := Reachable(fn)
	// SCCs (Tarjan)
	index := 0
	idx := make([]int, n)
	low := make([]int, n)
	on := make([]bool, n)
	comp := make([]int, n)
	for i := range idx {
		idx[i] = -1
		comp[i] = -1
	}
	var stack []int
	ncomp := 0
	var strong func(v int)
	strong = func(v int) {
		idx[v], low[v] = index, index
		index++
		stack = append(stack, v)
		on[v] = true
		for _, s := range fn.Blocks[v].Succs {
			w := s.Index
			if idx[w] < 0 {
				strong(w)
				if low[w] < low[v] {
					low[v] = low[w]
				}
			} else if on[w] && idx[w] < low[v] {
				low[v] = idx[w]
			}
		}
		if low[v] == idx[v] {
			for {
				w := stack[len(stack)-1]
				stack = stack[:len(stack)-1]
				on[w] = false
				comp[w] = ncomp
				if w == v {
					break
				}
			}
			ncomp++
		}
	}
	for i := 0; i < n; i++ {
		if reach[fn.Blocks[i]] && idx[i] < 0 {
			strong(i)
		}
	}
	weight := make([]int, ncomp)
	size := make([]int, ncomp)
	selfLoop := make([]bool, ncomp)
	for i, b := range fn.Blocks {
		if !reach[b] {
			continue
		}
		size[comp[i]]++
		for _, s := range b.Succs {
			if s == b {
				selfLoop[comp[i]] = true
			}
		}
		for _, in := range b.Instrs {
			if pred(in) {
				weight[comp[i]]++
			}
		}
	}
	for c := 0; c < ncomp; c++ {
		if (size[c] > 1 || selfLoop[c]) && weight[c] > 0 {
			weight[c] = Unbounded
		}
	}
	// longest path on the condensation (components are numbered in reverse topological order)
	best := make([]int, ncomp)
	done := make([]bool, ncomp)
	var longest func(c int) int
	succC := make([]map[int]bool, ncomp)
	for i, b := range fn.Blocks {
		if !reach[b] {
			continue
		}
		for _, s := range b.Succs {
			if comp[s.Index] != comp[i] {
				if succC[comp[i]] == nil {
					succC[comp[i]] = map[int]bool{}
				}
				succC[comp[i]][comp[s.Index]] = true
			}
		}
	}
	longest = func(c int) int {
		if done[c] {
			return best[c]
		}
		done[c] = true
		m := 0
		for s := range succC[c] {
			if v := longest(s); v > m {
				m = v
			}
		}
		best[c] = weight[c] + m
		if best[c] > Unbounded {
			best[c] = Unbounded
		}
		return best[c]
	}
	return longest(comp[0])
}

// MinCount is the minimal number of pred-instructions over all paths from the
// entry to a normal Return.
func MinCount(fn *ssa.Function, pred func(ssa.Instruction) bool) int {
	const inf = 1 << 30
	n := len(fn.Blocks)
	dist := make([]int, n)
	for i := range dist {
		dist[i] = inf
	}
	w := func(b *ssa.BasicBlock) int {
		c := 0
		for _, in := range b.Instrs {
			if pred(in) {
				c++
			}
		}
		return c
	}
	dist[0] = w(fn.Blocks[0])
	for changed := true; changed; {
		changed = false
		for _, b := range fn.Blocks {
			if dist[b.Index] == inf {
				continue
			}
			for _, s := range b.Succs {
				if d := dist[b.Index] + w(s); d < dist[s.Index] {
					dist[s.Index] = d
					changed = true
				}
			}
		}
	}
	best := inf
	for _, b := range fn.Blocks {
		if fn.Recover != nil && b == fn.Recover {
			continue
		}
		if _, ok := b.Instrs[len(b.Instrs)-1].(*ssa.Return); ok && dist[b.Index] < best {
			best = dist[b.Index]
		}
	}
	return best
}

// InCycle reports whether block b lies on a cycle of fn's CFG.
func InCycle(b *ssa.BasicBlock) bool {
	seen := map[*ssa.BasicBlock]bool{}
	work := append([]*ssa.BasicBlock(nil), b.Succs...)
	for len(work) > 0 {
		x := work[len(work)-1]
		work = work[:len(work)-1]
		if x == b {
			return true
		}
		if seen[x] {
			continue
		}
		seen[x] = true
		work = append(work, x.Succs...)
	}
	return false
}

// CanReachWithout reports whether some path leads from just after instruction
// `from` to an instruction satisfying `to` without passing an instruction
// satisfying `via` (must-pass-through is the negation).
func CanReachWithout(from ssa.Instruction, to, via func(ssa.Instruction) bool) bool {
	b := from.Block()
	start := -1
	for i, in := range b.Instrs {
		if in == from {
			start = i + 1
		}
	}
	type key struct {
		b *ssa.BasicBlock
	}
	seen := map[*ssa.BasicBlock]bool{}
	var scan func(b *ssa.BasicBlock, i int) bool
	scan = func(b *ssa.BasicBlock, i int) bool {
		for ; i < len(b.Instrs); i++ {
			in := b.Instrs[i]
			if via(in) {
				return false
			}
			if to(in) {
				return true
			}
		}
		for _, s := range b.Succs {
			if seen[s] {
				continue
			}
			seen[s] = true
			if scan(s, 0) {
				return true
			}
		}
		return false
	}
	return scan(b, start)
}

// IsReturn matches normal returns.
func IsReturn(in ssa.Instruction) bool {
	_, ok := in.(*ssa.Return)
	return ok
}

// LoopBlocks returns the blocks of the innermost cycle through b: blocks that b
// reaches and that reach b.
func LoopBlocks(b *ssa.BasicBlock) map[*ssa.BasicBlock]bool {
	fwd := map[*ssa.BasicBlock]bool{}
	var f func(x *ssa.BasicBlock)
	f = func(x *ssa.BasicBlock) {
		for _, s := range x.Succs {
			if !fwd[s] {
				fwd[s] = true
				f(s)
			}
		}
	}
	f(b)
	bwd := map[*ssa.BasicBlock]bool{}
	var g func(x *ssa.BasicBlock)
	g = func(x *ssa.BasicBlock) {
		for _, p := range x.Preds {
			if !bwd[p] {
				bwd[p] = true
				g(p)
			}
		}
	}
	g(b)
	out := map[*ssa.BasicBlock]bool{}
	for x := range fwd {
		if bwd[x] {
			out[x] = true
		}
	}
	return out
}

// ReturnValues resolves the results of a Return. Functions with defer spill their
// results into local cells ("*t0 = v; rundefers; t1 = *t0; return t1"): for those the
// value stored into the cell earlier in the same block is returned instead of the load.
func ReturnValues(ret *ssa.Return) []ssa.Value {
	out := make([]ssa.Value, len(ret.Results))
	for i, v := range ret.Results {
		out[i] = v
		u, ok := v.(*ssa.UnOp)
		if !ok || u.Op != token.MUL {
			continue
		}
		a, ok := u.X.(*ssa.Alloc)
		if !ok {
			continue
		}
		var last ssa.Value
		for _, in := range ret.Block().Instrs {
			if in == ssa.Instruction(u) {
				break
			}
			if st, ok := in.(*ssa.Store); ok && st.Addr == ssa.Value(a) {
				last = st.Val
			}
		}
		if last != nil {
			out[i] = last
		}
	}
	return out
}

// LoopBlocksList is LoopBlocks as a slice ordered by block index.
func LoopBlocksList(b *ssa.BasicBlock) []*ssa.BasicBlock {
	m := LoopBlocks(b)
	var out []*ssa.BasicBlock
	if b.Parent() == nil {
		return out
	}
	for _, x := range b.Parent().Blocks {
		if m[x] {
			out = append(out, x)
		}
	}
	return out
}

// NaturalLoop returns the natural loop of header h: h plus every block that can
// reach a back-edge source of h without passing through h. Empty when h has no
// back edge.
func NaturalLoop(h *ssa.BasicBlock) map[*ssa.BasicBlock]bool {
	loop := map[*ssa.BasicBlock]bool{}
	var work []*ssa.BasicBlock
	for _, p := range h.Preds {
		if h.Dominates(p) {
			work = append(work, p)
		}
	}
	if len(work) == 0 {
		return loop
	}
	loop[h] = true
	for len(work) > 0 {
		x := work[len(work)-1]
		work = work[:len(work)-1]
		if loop[x] {
			continue
		}
		loop[x] = true
		work = append(work, x.Preds...)
	}
	return loop
}

// Unspill resolves a load of a local cell that is stored exactly once (a variable
// captured by a closure or spilled because of defer) to the stored value.
func Unspill(v ssa.Value) ssa.Value {
	for i := 0; i < 4; i++ {
		u, ok := v.(*ssa.UnOp)
		if !ok || u.Op != token.MUL {
			return v
		}
		al, ok := u.X.(*ssa.Alloc)
		if !ok {
			return v
		}
		var st *ssa.Store
		n := 0
		for _, r := range *al.Referrers() {
			if s, ok := r.(*ssa.Store); ok && s.Addr == ssa.Value(al) {
				st = s
				n++
			}
		}
		if n != 1 {
			return v
		}
		v = st.Val
	}
	return v
}

// CanReachThreaded reports whether block to is reachable after taking the edge
// pred -> from without passing block stop, following only feasible successors where a
// branch tests a boolean flag whose value is determined by the edges taken so far
// (found := false; ...; found = true; break; ...; if found { continue }): a flag merged
// from constants takes, on each path, the constant of the edge the path came along.
func CanReachThreaded(pred, from, to, stop *ssa.BasicBlock) bool {
	type state struct {
		b   *ssa.BasicBlock
		env string
	}
	seen := map[state]bool{}
	envKey := func(env map[*ssa.Phi]bool) string {
		var ks []string
		for ph, v := range env {
			ks = append(ks, fmt.Sprintf("%s=%v", ph.Name(), v))
		}
		sort.Strings(ks)
		return strings.Join(ks, ",")
	}
	var rec func(p, b *ssa.BasicBlock, env map[*ssa.Phi]bool) bool
	rec = func(p, b *ssa.BasicBlock, env map[*ssa.Phi]bool) bool {
		if b == to {
			return true
		}
		if b == stop {
			return false
		}
		// update the flags merged in b for the edge p -> b
		ne := map[*ssa.Phi]bool{}
		for k, v := range env {
			ne[k] = v
		}
		for _, in := range b.Instrs {
			ph, ok := in.(*ssa.Phi)
			if !ok {
				break
			}
			delete(ne, ph)
			for i, pp := range b.Preds {
				if pp != p {
					continue
				}
				e := ph.Edges[i]
				if bv, ok := BoolConst(e); ok {
					ne[ph] = bv
				} else if ep, ok := e.(*ssa.Phi); ok {
					if v, known := env[ep]; known {
						ne[ph] = v
					}
				}
			}
		}
		st := state{b, envKey(ne)}
		if seen[st] {
			return false
		}
		seen[st] = true
		succs := b.Succs
		if iff := BlockIf(b); iff != nil && len(b.Succs) == 2 {
			v := iff.Cond
			neg := false
			for {
				if u, ok := v.(*ssa.UnOp); ok && u.Op == token.NOT {
					neg = !neg
					v = u.X
					continue
				}
				break
			}
			if ph, ok := v.(*ssa.Phi); ok {
				if val, known := ne[ph]; known {
					if val != neg {
						succs = b.Succs[:1]
					} else {
						succs = b.Succs[1:2]
					}
				}
			}
		}
		for _, s := range succs {
			if rec(b, s, ne) {
				return true
			}
		}
		return false
	}
	return rec(pred, from, map[*ssa.Phi]bool{})
}

// FlagSource: cond (through NOT) is a boolean flag merged from several edges and exactly
// one edge can give it the truth value in question: the block that edge leaves, and the
// index of the edge among the flag's incoming edges.
func FlagSource(cond ssa.Value, truth bool) (*ssa.BasicBlock, int, bool) {
	pb, _, _, ok := flagEdge(cond, truth)
	if !ok {
		return nil, 0, false
	}
	v := cond
	for {
		if u, isU := v.(*ssa.UnOp); isU && u.Op == token.NOT {
			v = u.X
			continue
		}
		break
	}
	phi := v.(*ssa.Phi)
	for i, p := range phi.Block().Preds {
		if p == pb {
			return pb, i, true
		}
	}
	return nil, 0, false
}

// ResolvePhi: v is a phi of a merge block M, and target is guarded by a flag of the same
// block M that only one incoming edge of M can give its value (the `ok` of a
// `value, ok` pair assigned together): on every path to target, v has the value that
// edge delivers. Anything else is returned unchanged.
func ResolvePhi(fn *ssa.Function, target *ssa.BasicBlock, v ssa.Value) ssa.Value {
	phi, ok := v.(*ssa.Phi)
	if !ok {
		return v
	}
	for _, b := range fn.Blocks {
		iff := BlockIf(b)
		if iff == nil {
			continue
		}
		for idx := 0; idx < 2; idx++ {
			if !EdgeDominates(b, idx, target) {
				continue
			}
			c := iff.Cond
			for {
				if u, isU := c.(*ssa.UnOp); isU && u.Op == token.NOT {
					c = u.X
					continue
				}
				break
			}
			fp, isPhi := c.(*ssa.Phi)
			if !isPhi || fp.Block() != phi.Block() {
				continue
			}
			if _, i, ok := FlagSource(iff.Cond, idx == 0); ok && i < len(phi.Edges) {
				return phi.Edges[i]
			}
		}
	}
	return v
}
