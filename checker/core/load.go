// Package core holds what every engine shares: loading /repo's current working
// tree into type-checked syntax and SSA form, stable naming of functions and
// objects, diagnostics, known findings and evidence.
package core

import (
	"fmt"
	"go/ast"
	"go/token"
	"go/types"
	"os"
	"path/filepath"
	"sort"
	"strings"

	"gogucheck/norm"

	"golang.org/x/tools/go/packages"
	"golang.org/x/tools/go/ssa"
	"golang.org/x/tools/go/ssa/ssautil"
)

// Program is the resolved program of one load of the target module.
type Program struct {
	Dir        string
	Fset       *token.FileSet
	ModulePath string
	Pkgs       []*packages.Package // packages of the target module, sorted by path
	ByPkgName  map[string]*packages.Package
	SSA        *ssa.Program
	SSAPkg     map[string]*ssa.Package // by package name (gogu, heap, cache, ...)
	Funcs      []*ssa.Function         // every source function of the module incl. closures (generic bodies)
	ByName     map[string]*ssa.Function
	names      map[*ssa.Function]string
}

// MinPackages is the floor on the number of module packages (confirmed by reading:
// gogu, bstree, btree, cache, heap, list, queue, stack, trie).
const MinPackages = 9

// Load type-checks and builds SSA for every package of the module rooted at dir.
// overlay maps absolute file names to replacement contents (used only by the
// self-validation of the checker; never by a registered check).
func Load(dir string, overlay map[string][]byte, minPkgs int) (*Program, error) {
	fset := token.NewFileSet()
	env := append(os.Environ(),
		"GOPROXY=off", "GOSUMDB=off", "GOTOOLCHAIN=local", "GOWORK=off",
		"GOFLAGS=-mod=readonly", "CGO_ENABLED=0")
	cfg := &packages.Config{
		Mode:    packages.LoadAllSyntax,
		Dir:     dir,
		Fset:    fset,
		Tests:   false,
		Env:     env,
		Overlay: overlay,
	}
	pkgs, err := packages.Load(cfg, "./...")
	if err != nil {
		return nil, fmt.Errorf("load: %v", err)
	}
	if len(pkgs) < minPkgs {
		return nil, fmt.Errorf("load: %d packages loaded from %s, expected at least %d", len(pkgs), dir, minPkgs)
	}
	var errs []string
	packages.Visit(pkgs, nil, func(p *packages.Package) {
		for _, e := range p.Errors {
			errs = append(errs, e.Error())
		}
	})
	if len(errs) > 0 {
		return nil, fmt.Errorf("load: type/parse errors: %s", strings.Join(errs, "; "))
	}
	sort.Slice(pkgs, func(i, j int) bool { return pkgs[i].PkgPath < pkgs[j].PkgPath })
	p := &Program{Dir: dir, Fset: fset, Pkgs: pkgs,
		ByPkgName: map[string]*packages.Package{}, SSAPkg: map[string]*ssa.Package{},
		ByName: map[string]*ssa.Function{}, names: map[*ssa.Function]string{}}
	if pkgs[0].Module != nil {
		p.ModulePath = pkgs[0].Module.Path
	} else {
		p.ModulePath = pkgs[0].PkgPath
	}
	prog, spkgs := ssautil.AllPackages(pkgs, ssa.BuilderMode(0))
	prog.Build()
	p.SSA = prog
	for i, sp := range spkgs {
		if sp == nil {
			return nil, fmt.Errorf("load: no SSA package for %s", pkgs[i].PkgPath)
		}
		p.SSAPkg[pkgs[i].Name] = sp
		p.ByPkgName[pkgs[i].Name] = pkgs[i]
	}
	p.enumerate(spkgs)
	return p, nil
}

// enumerate lists every source-level function of the module: package-level
// functions, methods of named types (generic or not; ssautil.AllFunctions misses
// the methods of generic named types) and closures, recursively.
func (p *Program) enumerate(spkgs []*ssa.Package) {
	seen := map[*ssa.Function]bool{}
	var add func(fn *ssa.Function)
	add = func(fn *ssa.Function) {
		if fn == nil || seen[fn] {
			return
		}
		seen[fn] = true
		if fn.Synthetic == "" || len(fn.Blocks) > 0 && fn.Syntax() != nil {
			p.Funcs = append(p.Funcs, fn)
		}
		for _, a := range fn.AnonFuncs {
			add(a)
		}
	}
	for _, sp := range spkgs {
		var names []string
		for n := range sp.Members {
			names = append(names, n)
		}
		sort.Strings(names)
		for _, n := range names {
			switch m := sp.Members[n].(type) {
			case *ssa.Function:
				if m.Name() == "init" && m.Synthetic != "" {
					continue
				}
				add(m)
			case *ssa.Type:
				named, ok := m.Type().(*types.Named)
				if !ok {
					continue
				}
				for i := 0; i < named.NumMethods(); i++ {
					add(p.SSA.FuncValue(named.Method(i)))
				}
			}
		}
	}
	sort.SliceStable(p.Funcs, func(i, j int) bool { return p.FuncName(p.Funcs[i]) < p.FuncName(p.Funcs[j]) })
	for _, fn := range p.Funcs {
		p.ByName[p.FuncName(fn)] = fn
	}
}

// Canon maps an instantiation (or instantiation wrapper) to its generic body.
func Canon(fn *ssa.Function) *ssa.Function {
	if fn == nil {
		return nil
	}
	if o := fn.Origin(); o != nil {
		return o
	}
	return fn
}

// InModule reports whether fn is defined in the target module.
func (p *Program) InModule(fn *ssa.Function) bool {
	fn = Canon(fn)
	if fn == nil {
		return false
	}
	for fn.Parent() != nil {
		fn = fn.Parent()
	}
	var pkg *types.Package
	if fn.Pkg != nil {
		pkg = fn.Pkg.Pkg
	} else if fn.Object() != nil {
		pkg = fn.Object().Pkg()
	}
	if pkg == nil {
		return false
	}
	return pkg.Path() == p.ModulePath || strings.HasPrefix(pkg.Path(), p.ModulePath+"/")
}

// TypeInModule reports whether the named type is declared in the target module.
func (p *Program) TypeInModule(n *types.Named) bool {
	if n == nil || n.Obj() == nil || n.Obj().Pkg() == nil {
		return false
	}
	path := n.Obj().Pkg().Path()
	return path == p.ModulePath || strings.HasPrefix(path, p.ModulePath+"/")
}

// FuncName gives the stable, position-free name used in obligation keys:
// "heap.(*Heap).Delete", "gogu.Merge", "bstree.(*BsTree).Traverse$1".
func (p *Program) FuncName(fn *ssa.Function) string {
	fn = Canon(fn)
	if fn == nil {
		return "<nil>"
	}
	if s, ok := p.names[fn]; ok {
		return s
	}
	var s string
	if par := fn.Parent(); par != nil {
		suffix := strings.TrimPrefix(fn.Name(), par.Name())
		s = p.FuncName(par) + suffix
	} else {
		pkgName := "?"
		if fn.Pkg != nil {
			pkgName = fn.Pkg.Pkg.Name()
		} else if fn.Object() != nil && fn.Object().Pkg() != nil {
			pkgName = fn.Object().Pkg().Name()
		}
		name := fn.Name()
		if recv := fn.Signature.Recv(); recv != nil {
			t := recv.Type()
			ptr := ""
			if pt, ok := t.(*types.Pointer); ok {
				ptr = "*"
				t = pt.Elem()
			}
			tn := "?"
			if n, ok := t.(*types.Named); ok {
				tn = n.Obj().Name()
			}
			if ptr != "" {
				s = fmt.Sprintf("%s.(*%s).%s", pkgName, tn, name)
			} else {
				s = fmt.Sprintf("%s.(%s).%s", pkgName, tn, name)
			}
		} else if strings.Contains(name, "$bound") || strings.Contains(name, "$thunk") {
			// synthetic method wrappers: "(*T).m$bound"
			s = pkgName + "." + name
		} else {
			s = pkgName + "." + name
		}
	}
	p.names[fn] = s
	return s
}

// Func resolves a function by its stable name; nil if absent.
func (p *Program) Func(name string) *ssa.Function { return p.ByName[name] }

// Pos renders a position relative to the module root.
func (p *Program) Pos(pos token.Pos) string {
	if !pos.IsValid() {
		return "-"
	}
	ps := p.Fset.Position(pos)
	rel, err := filepath.Rel(p.Dir, ps.Filename)
	if err != nil {
		rel = ps.Filename
	}
	return fmt.Sprintf("%s:%d", rel, ps.Line)
}

// FuncFile returns the file (relative to the module root) that declares fn.
func (p *Program) FuncFile(fn *ssa.Function) string {
	fn = Canon(fn)
	for fn.Parent() != nil {
		fn = fn.Parent()
	}
	if !fn.Pos().IsValid() {
		return ""
	}
	ps := p.Fset.Position(fn.Pos())
	rel, err := filepath.Rel(p.Dir, ps.Filename)
	if err != nil {
		return ps.Filename
	}
	return rel
}

// FuncsInFiles lists top-level (non-closure) functions declared in the given files
// (paths relative to the module root), sorted by name.
//
// The scope follows the function, not the file: a function of the confirmed tree
// belongs to the file it was confirmed in wherever it lives now (moving a function to
// another file of its package changes nothing), and a function the confirmed tree does
// not know belongs to the file it is in - or, when that file is new as well, to every
// file scope of its directory (so that a writer added in a new file is still seen by
// the who-writes rules of its package).
func (p *Program) FuncsInFiles(files ...string) []*ssa.Function {
	want := map[string]bool{}
	wantDir := map[string]bool{}
	for _, f := range files {
		want[f] = true
		wantDir[filepath.Dir(f)] = true
	}
	home := norm.ConfirmedFiles()
	knownFile := map[string]bool{}
	for _, f := range home {
		knownFile[f] = true
	}
	var out []*ssa.Function
	for _, fn := range p.Funcs {
		if fn.Parent() != nil {
			continue
		}
		cur := p.FuncFile(fn)
		if strings.HasSuffix(cur, "_test.go") {
			continue
		}
		if h, ok := home[p.FuncName(fn)]; ok && len(home) > 0 {
			if want[h] {
				out = append(out, fn)
			}
			continue
		}
		if want[cur] || (len(home) > 0 && !knownFile[cur] && wantDir[filepath.Dir(cur)]) {
			out = append(out, fn)
		}
	}
	return out
}

// InstrPos finds a usable position for an instruction (falls back to the
// enclosing function when the instruction has none).
func (p *Program) InstrPos(in ssa.Instruction) string {
	if in == nil {
		return "-"
	}
	if in.Pos().IsValid() {
		return p.Pos(in.Pos())
	}
	if v, ok := in.(ssa.Value); ok {
		for _, r := range *v.Referrers() {
			if r.Pos().IsValid() {
				return p.Pos(r.Pos())
			}
		}
	}
	// nearest positioned instruction in the same block
	if b := in.Block(); b != nil {
		for _, o := range b.Instrs {
			if o.Pos().IsValid() {
				return p.Pos(o.Pos())
			}
		}
	}
	if in.Parent() != nil {
		return p.Pos(in.Parent().Pos())
	}
	return "-"
}

// FuncDecl returns the syntax of a top-level function.
func (p *Program) FuncDecl(fn *ssa.Function) *ast.FuncDecl {
	fn = Canon(fn)
	if fn == nil {
		return nil
	}
	if d, ok := fn.Syntax().(*ast.FuncDecl); ok {
		return d
	}
	return nil
}

// TypesInfo returns the types.Info of the package that declares fn.
func (p *Program) TypesInfo(fn *ssa.Function) *types.Info {
	fn = Canon(fn)
	for fn.Parent() != nil {
		fn = fn.Parent()
	}
	if fn.Pkg == nil {
		return nil
	}
	for _, pk := range p.Pkgs {
		if pk.Types == fn.Pkg.Pkg {
			return pk.TypesInfo
		}
	}
	return nil
}

// ExportedAPI reports whether fn is an exported function or an exported method of
// an exported type (closures excluded).
func ExportedAPI(fn *ssa.Function) bool {
	if fn.Parent() != nil || fn.Object() == nil || !fn.Object().Exported() {
		return false
	}
	if recv := fn.Signature.Recv(); recv != nil {
		t := recv.Type()
		if pt, ok := t.(*types.Pointer); ok {
			t = pt.Elem()
		}
		if n, ok := t.(*types.Named); ok {
			return n.Obj().Exported()
		}
		return false
	}
	return true
}
