package core

import (
	"encoding/json"
	"fmt"
	"os"
	"path/filepath"
	"sort"
	"strings"
	"time"
)

// Diag is one undischarged obligation. It is identified by Rule+Func+Object
// (resolved names, never positions); Pos, Reason and Path make it diagnosable.
type Diag struct {
	Property string   `json:"property"`
	Rule     string   `json:"rule"`
	Func     string   `json:"function"`
	Object   string   `json:"object"`
	Pos      string   `json:"pos"`
	Reason   string   `json:"reason"`
	Path     []string `json:"path,omitempty"` // entry point > call path
	Kind     string   `json:"kind"`           // "violation" or "undecided"
}

func (d Diag) Key() string { return d.Rule + " " + d.Func + " " + d.Object }

func (d Diag) String() string {
	s := fmt.Sprintf("%s  %s  %s  %s  %s", d.Pos, d.Rule, d.Func, d.Object, d.Reason)
	if len(d.Path) > 0 {
		s += "  [" + strings.Join(d.Path, " > ") + "]"
	}
	if d.Kind == "undecided" {
		s += "  (undecided: construct outside every accepted form)"
	}
	return s
}

// Finding is one entry of /verif/known_findings.json.
type Finding struct {
	Property string `json:"property"`
	Rule     string `json:"rule"`
	Function string `json:"function"`
	Object   string `json:"object"`
	Status   string `json:"status"` // "known" | "fixed"
	Commit   string `json:"commit,omitempty"`
	What     string `json:"what"`
}

func (f Finding) Key() string { return f.Rule + " " + f.Function + " " + f.Object }

// Report accumulates what one property check covered and found.
type Report struct {
	Property    string
	Tier        string
	Seed        int64
	Explanation string
	Assumptions []string
	NotDecided  []string

	obligations int
	discharged  int
	distinct    map[string]bool // distinct obligation identities (rule + construct), measured
	ruleCount   map[string]int
	floors      map[string]int
	samples     []any
	sampleSeen  map[string]int
	diags       []Diag
	diagSeen    map[string]bool
	info        []string
	Extra       map[string]any
	Functions   map[string]bool
	EntryPoints map[string]bool
	start       time.Time
	fatal       []string
}

func NewReport(property, tier string, seed int64) *Report {
	return &Report{Property: property, Tier: tier, Seed: seed,
		ruleCount: map[string]int{}, floors: map[string]int{}, sampleSeen: map[string]int{},
		diagSeen: map[string]bool{}, Extra: map[string]any{}, Functions: map[string]bool{},
		EntryPoints: map[string]bool{}, start: time.Now()}
}

// Obligation records one checked instance of a rule. ok=false must be accompanied
// by a Violation/Undecided call carrying the diagnostic.
func (r *Report) Obligation(rule string, ok bool, sample any) {
	r.obligations++
	r.ruleCount[rule]++
	if r.distinct == nil {
		r.distinct = map[string]bool{}
	}
	id := rule
	if m, isMap := sample.(map[string]any); isMap {
		// identity = rule + construct: positions and verdicts are not part of it
		cp := map[string]any{}
		for k, v := range m {
			if k == "at" || k == "ok" || k == "pos" {
				continue
			}
			cp[k] = v
		}
		b, _ := json.Marshal(cp)
		id += "|" + string(b)
	} else if sample != nil {
		b, _ := json.Marshal(sample)
		id += "|" + string(b)
	} else {
		id += fmt.Sprintf("|#%d", r.obligations)
	}
	r.distinct[id] = true
	if ok {
		r.discharged++
	}
	if sample != nil && r.sampleSeen[rule] < 3 {
		r.sampleSeen[rule]++
		r.samples = append(r.samples, sample)
	}
}

// Count adds to a rule's instance count without creating an obligation.
func (r *Report) Count(rule string, n int) { r.ruleCount[rule] += n }

// Floor demands that rule has at least n instances, else the run fails as vacuous.
func (r *Report) Floor(rule string, n int) { r.floors[rule] = n }

func (r *Report) Violation(d Diag) {
	d.Property = r.Property
	if d.Kind == "" {
		d.Kind = "violation"
	}
	k := d.Key() + "|" + d.Kind
	if r.diagSeen[k] {
		return
	}
	r.diagSeen[k] = true
	r.diags = append(r.diags, d)
}

func (r *Report) Undecided(d Diag) { d.Kind = "undecided"; r.Violation(d) }

func (r *Report) Info(format string, a ...any) { r.info = append(r.info, fmt.Sprintf(format, a...)) }

// Fatal records a checker-level failure (unresolved anchor, vacuous rule, ...).
func (r *Report) Fatal(format string, a ...any) {
	r.fatal = append(r.fatal, fmt.Sprintf(format, a...))
}

func (r *Report) Diags() []Diag { return r.diags }

func (r *Report) RuleCount(rule string) int { return r.ruleCount[rule] }

func LoadFindings(path string) ([]Finding, error) {
	b, err := os.ReadFile(path)
	if err != nil {
		if os.IsNotExist(err) {
			return nil, nil
		}
		return nil, err
	}
	var f struct {
		Findings []Finding `json:"findings"`
	}
	if err := json.Unmarshal(b, &f); err != nil {
		return nil, fmt.Errorf("%s: %v", path, err)
	}
	return f.Findings, nil
}

// Finish prints the verdict, writes the evidence (and the replay file on a
// violation) and returns the process exit code: 0 pass, 1 violation, 2 checker
// failure.
func (r *Report) Finish(outDir string, findings []Finding) int {
	for rule, n := range r.floors {
		if r.ruleCount[rule] < n {
			r.Fatal("vacuous: rule %s matched %d instances, floor is %d (confirmed by reading on the pinned tree)", rule, r.ruleCount[rule], n)
		}
	}
	// a rule that no longer finds the constructs it is anchored in (a function is gone, a
	// rule matches fewer sites than were confirmed) leaves the property undecided on this
	// tree: that fails the check like any other undecided construct (exit 1, VIOLATION
	// line), it is not a crash of the checker. Load and type errors stay checker failures.
	{
		var keep []string
		for _, f := range r.fatal {
			if strings.HasPrefix(f, "unresolved-anchor") || strings.HasPrefix(f, "vacuous") {
				r.Undecided(Diag{Rule: "ANCHOR", Func: "-", Object: f, Pos: "-", Reason: "the rules of this property are anchored in constructs the tree no longer has: " + f})
				fmt.Printf("note: anchor lost property=%s %s\n", r.Property, f)
				continue
			}
			keep = append(keep, f)
		}
		r.fatal = keep
	}
	known := map[string]Finding{}
	for _, f := range findings {
		if f.Property == r.Property && f.Status == "known" {
			known[f.Key()] = f
		}
	}
	sort.SliceStable(r.diags, func(i, j int) bool { return r.diags[i].Key() < r.diags[j].Key() })
	var fresh, knownHit []Diag
	hit := map[string]bool{}
	for _, d := range r.diags {
		if _, ok := known[d.Key()]; ok && d.Kind == "violation" {
			knownHit = append(knownHit, d)
			hit[d.Key()] = true
		} else {
			fresh = append(fresh, d)
		}
	}
	for _, d := range knownHit {
		fmt.Printf("KNOWN-FINDING: property=%s %s: %s (%s)\n", r.Property, d.Key(), known[d.Key()].What, d.Pos)
	}
	var stale []string
	for k := range known {
		if !hit[k] {
			stale = append(stale, k)
		}
	}
	sort.Strings(stale)
	for _, k := range stale {
		fmt.Printf("note: known finding no longer reported (stale entry): %s\n", k)
	}
	replay := filepath.Join(outDir, "replay", r.Property+".json")
	code := 0
	if len(fresh) > 0 {
		code = 1
		for _, d := range fresh {
			fmt.Println(d.String())
		}
		os.MkdirAll(filepath.Dir(replay), 0o755)
		b, _ := json.MarshalIndent(map[string]any{"property": r.Property, "diagnostics": fresh}, "", " ")
		os.WriteFile(replay, b, 0o644)
		fmt.Printf("VIOLATION property=%s replay=%s\n", r.Property, replay)
	}
	if len(r.fatal) > 0 {
		for _, f := range r.fatal {
			fmt.Printf("CHECKER-FAILURE property=%s %s\n", r.Property, f)
		}
		if code == 0 {
			code = 2
		}
	}
	for _, s := range r.info {
		fmt.Println("info:", s)
	}
	wall := time.Since(r.start).Seconds()
	fns := keys(r.Functions)
	eps := keys(r.EntryPoints)
	cov := map[string]any{
		"explanation":        r.Explanation,
		"obligations":        r.obligations,
		"discharged":         r.discharged,
		"evaluations":        r.obligations,
		"rule_instances":     r.ruleCount,
		"functions_analysed": len(fns),
		"entry_points":       len(eps),
		"functions":          fns,
		"exhaustive":         true,
		"not_decided":        r.NotDecided,
		"known_findings_hit": len(knownHit),
		"checker_cmd":        fmt.Sprintf("./check %s %s", r.Property, r.Tier),
		"rule":               "every instance of each rule on /repo's current tree is one obligation (evaluations = obligations); distinct_nontrivial counts the distinct identities rule+function+construct among them (positions and verdicts excluded), measured on this run",
	}
	distinct := map[string]bool{}
	for _, s := range r.samples {
		b, _ := json.Marshal(s)
		distinct[string(b)] = true
	}
	cov["distinct_nontrivial"] = len(r.distinct)
	if len(r.samples) == 0 {
		r.samples = append(r.samples, map[string]any{"note": "no obligations"})
	}
	cov["samples"] = r.samples
	if len(r.info) > 0 {
		cov["information"] = r.info
	}
	for k, v := range r.Extra {
		cov[k] = v
	}
	ev := map[string]any{
		"property_id": r.Property,
		"tier":        r.Tier,
		"seed":        r.Seed,
		"level":       "other",
		"coverage":    cov,
		"assumptions": r.Assumptions,
		"wall_s":      wall,
		"violations":  len(fresh),
	}
	if len(r.fatal) > 0 {
		ev["checker_failures"] = r.fatal
	}
	os.MkdirAll(outDir, 0o755)
	b, _ := json.MarshalIndent(ev, "", " ")
	if err := os.WriteFile(filepath.Join(outDir, r.Property+".json"), append(b, '\n'), 0o644); err != nil {
		fmt.Println("CHECKER-FAILURE cannot write evidence:", err)
		if code == 0 {
			code = 2
		}
	}
	verdict := "PASS"
	if code == 1 {
		verdict = "FAIL"
	} else if code == 2 {
		verdict = "CHECKER-FAILURE"
	}
	fmt.Printf("%s property=%s tier=%s obligations=%d discharged=%d known=%d new=%d rules=%s wall=%.1fs\n",
		verdict, r.Property, r.Tier, r.obligations, r.discharged, len(knownHit), len(fresh), fmtCounts(r.ruleCount), wall)
	return code
}

func keys(m map[string]bool) []string {
	out := make([]string, 0, len(m))
	for k := range m {
		out = append(out, k)
	}
	sort.Strings(out)
	return out
}

func fmtCounts(m map[string]int) string {
	var ks []string
	for k := range m {
		ks = append(ks, k)
	}
	sort.Strings(ks)
	var sb strings.Builder
	for i, k := range ks {
		if i > 0 {
			sb.WriteByte(',')
		}
		fmt.Fprintf(&sb, "%s:%d", k, m[k])
	}
	return sb.String()
}

// NewViolations counts diagnostics that are not listed as known findings.
func (r *Report) NewViolations(findings []Finding) int {
	known := map[string]bool{}
	for _, f := range findings {
		if f.Property == r.Property && f.Status == "known" {
			known[f.Key()] = true
		}
	}
	n := 0
	for _, d := range r.diags {
		if !(known[d.Key()] && d.Kind == "violation") {
			n++
		}
	}
	return n
}

// NewDiags lists the diagnostics that are not known findings.
func (r *Report) NewDiags(findings []Finding) []Diag {
	known := map[string]bool{}
	for _, f := range findings {
		if f.Property == r.Property && f.Status == "known" {
			known[f.Key()] = true
		}
	}
	var out []Diag
	for _, d := range r.diags {
		if !(known[d.Key()] && d.Kind == "violation") {
			out = append(out, d)
		}
	}
	return out
}

// Failures lists the checker-level failures recorded so far, including floors that
// are not met (anchor loss).
func (r *Report) Failures() []string {
	out := append([]string(nil), r.fatal...)
	for rule, n := range r.floors {
		if r.ruleCount[rule] < n {
			out = append(out, fmt.Sprintf("vacuous: rule %s matched %d instances, floor is %d", rule, r.ruleCount[rule], n))
		}
	}
	return out
}

// ReplayKeys reads the obligation keys recorded in a replay file.
func ReplayKeys(path string) ([]string, error) {
	b, err := os.ReadFile(path)
	if err != nil {
		return nil, err
	}
	var f struct {
		Diagnostics []Diag `json:"diagnostics"`
	}
	if err := json.Unmarshal(b, &f); err != nil {
		return nil, err
	}
	var out []string
	for _, d := range f.Diagnostics {
		out = append(out, d.Key())
	}
	return out, nil
}
