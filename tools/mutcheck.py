#!/usr/bin/env python3
"""tools/mutcheck.py <mutdir> <workers>: run the checks of the properties anchored in a surviving mutant's file
against it (gogucheck -overlay) and record which property, if any, reports it."""
import json, os, subprocess, sys, concurrent.futures as cf
mutdir, workers = sys.argv[1], int(sys.argv[2])
props = [json.loads(l) for l in open('/verif/properties.jsonl')]
claimed = {c['property_id'] for c in json.load(open('/verif/MANIFEST.json'))['checks']}
byfile = {}
for p in props:
    if p['id'] not in claimed: continue
    for f in p['anchors']['files']:
        byfile.setdefault(f, []).append(p['id'])
extra = {'list/dlist.go': ['C05', 'C06', 'C01', 'C02'], 'list/slist.go': [], 'generic.go': ['C13', 'C03', 'C04'], 'heap/heapsort.go': ['C03', 'C16']}
for f, ps in extra.items():
    for q in ps:
        if q not in byfile.setdefault(f, []): byfile[f].append(q)
muts = {m['id']: m for m in map(json.loads, open(os.path.join(mutdir, 'index.jsonl')))}
res = [json.loads(l) for l in open(os.path.join(mutdir, 'results.jsonl'))]
surv = [muts[r['id']] for r in res if r['status'] == 'survived']
done = {}
cp = os.path.join(mutdir, 'checked.jsonl')
if os.path.exists(cp):
    for l in open(cp):
        r = json.loads(l); done[r['id']] = r
def run(m):
    ov = os.path.join(mutdir, '%05d' % m['id'], 'overlay.json')
    caught = []
    first = ''
    for pid in byfile.get(m['file'], []):
        p = subprocess.run(['/verif/bin/gogucheck', '-overlay', ov, '-property', pid, '-repo', '/repo', '-known', '/verif/known_findings.json'], capture_output=True, text=True)
        if 'SEED CAUGHT' in p.stdout:
            caught.append(pid)
            if not first:
                ls = [l.strip() for l in p.stdout.splitlines() if l.startswith('   ')]
                first = ls[0][:220] if ls else ''
    return dict(id=m['id'], file=m['file'], line=m['line'], func=m['func'], op=m['op'], frm=m['from'][:80], to=m['to'][:80], props=byfile.get(m['file'], []), caught=caught, first=first)
todo = [m for m in surv if m['id'] not in done]
print('survivors', len(surv), 'todo', len(todo), flush=True)
with open(cp, 'a') as out, cf.ThreadPoolExecutor(workers) as ex:
    for r in ex.map(run, todo):
        out.write(json.dumps(r) + '\n'); out.flush()
print('done')
