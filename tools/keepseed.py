#!/usr/bin/env python3
"""tools/keepseed.py <ID> <srcdir> <caught_by> <ran> : copy a confirmed seeded change into /verif/seeded/<ID>/"""
import json, os, shutil, sys
sid, src, caught, ran = sys.argv[1:5]
dst = '/verif/seeded/' + sid
os.makedirs(dst, exist_ok=True)
for f in os.listdir(src):
    if f != 'meta.json':
        shutil.copy(os.path.join(src, f), os.path.join(dst, f))
m = json.load(open(os.path.join(src, 'meta.json')))
m['property'] = m.get('breaks', sid.split('-')[0])
m['confirmed_by_me'] = ran
m['caught_by'] = caught
m['origin'] = 'independent sub-agent given only the property text and a scratch worktree'
json.dump(m, open(os.path.join(dst, 'meta.json'), 'w'), indent=1)
print('kept', dst)
