#!/usr/bin/env python3
"""Regenerates /verif/MANIFEST.json from the table below (kept in one place so the
claims, techniques and not_applicable reasons stay consistent)."""
import json, subprocess

CLAIMED = {
 "C08": dict(
   technique="error-discipline rules + finite order abstraction of the expiry decisions + path/feasibility rules on go/ssa; atomicity rules of the lockset engine for the cache type",
   text="Decides the error and decision-logic clauses: no error of the store layer is dropped or laundered through Unwrap(Join) (ER1-ER3); Get, DeleteExpired and IsExpired agree on 'expired' at every abstract point the writer can store (OD1, exhaustive over {-1,0,<now,=now,>now}); IsExpired's true answer is feasible (OD3); the janitor starts exactly under cleanupTime > 0 and only calls the locked scan; Set cannot reach its store when its lookup found a live entry, Update always stores; Count derives from the map (CM1); each cache operation is one atomic step against the concurrent janitor (AT1/AT2). Everything timed is not decided.",
   note="Trusted: go/ssa, errors.Join/Unwrap contracts, the clock exceeds every small constant; the full lock discipline is C01/C02.",
   ref="DESIGN.md section 3 E5/E6, section 4 C08"),
 "C17": dict(
   technique="who-may-call + value-flow rules on go/ssa around singleflight.Do; cache-layer atomicity and expiry-agreement rules",
   text="The user function is invoked only inside the literal passed to singleflight.Do on the memoizer's shared group with the caller's key (so Do's contract excludes two executions in flight for every schedule); miss path returns Do's result unmodified, hit path returns the looked-up item without calling anything; errors are returned and never cached; lookup, flight and store use the same key; and the cache layer below is atomic against the janitor and agrees on 'expired'. Expiry timing and singleflight internals are not decided.",
   note="Trusted: singleflight.Group.Do contract, go/ssa.",
   ref="DESIGN.md section 4 C17"),
 "C16": dict(
   technique="ownership/effect dataflow with per-function summaries on go/ssa (argument storage vs fresh storage tags)",
   text="Proves for every exported helper of the six helper files plus heap.FromSlice/Sort that no write (store, map update/delete, copy, sort, append onto an argument) reaches argument storage (OW1), every returned container and every container stored inside the result is fresh storage (OW2), and the in-place helpers write only their designated argument (OW3). Implies the statement structurally; callbacks and element-level sharing are not decided.",
   note="Trusted: go/ssa, Go append/copy/re-slice semantics, closed table of external callees, frozen in-place and view tables taken from the property statement.",
   ref="DESIGN.md section 3 E2, section 4 C16"),
 "C18": dict(
   technique="path rules on the go/ssa CFG: longest-path call counting on the acyclic condensation, edge dominance, must-pass-through, induction-variable loop bound",
   text="Decides call counts and ordering of After, Before, Once, Retry, RetryWithDelay: callback at most once per path, counter decremented exactly once and compared with a constant before/after as the function promises, Once stores and returns the single call result, retry loops bounded by n with exit on first success and a wait on the delay parameter between attempts. Thresholds of After/Before and wall-clock time are not decided.",
   note="Trusted: go/ssa, time.After/Sleep contracts; accepted loop shapes enumerated in DESIGN.md (PT4).",
   ref="DESIGN.md section 3 E4, section 4 C18"),
 "C01": dict(
   technique="interprocedural lockset + ownership dataflow on go/ssa (context-inlined abstract interpretation)",
   text="Proves, for every API entry point of the eight lock-guarded container types and every calling context, that each access to guarded storage holds the instance lock in the needed mode, that locks are balanced, never re-acquired and acyclically ordered, and that no reference to guarded storage escapes (rules LK1-LK5). Sufficient for data-race freedom and absence of lock-induced deadlock for every schedule; sequential panics and user-callback re-entrancy are not decided.",
   note="Trusted: go/types + go/ssa (x/tools v0.29.0), sync.Mutex/RWMutex contracts, the frozen list of types documented as thread safe, guard table derived by type and compared with a frozen table; user callbacks do not touch the container.",
   ref="DESIGN.md section 3 E1, section 4 C01"),
 "C02": dict(
   technique="critical-section dependence analysis (taint + control dependence on the feasible CFG) on top of the lockset engine",
   text="Proves that the critical sections one operation opens on an instance are independent (rule AT1: no check-then-act, no stale snapshot), with LK1/LK4 guaranteeing that all guarded accesses lie inside them; hence each single-element operation has one linearization point and concurrent executions are equivalent to sequential runs of the same code. Whether that sequential behaviour is right is the business of C03-C09.",
   note="Same trusted base as C01; one reviewed exception (heap.Clear) validated by shape on every run; infeasible branches pruned only through callee return summaries computed from the callee body.",
   ref="DESIGN.md section 3 E1 (AT1), section 4 C02"),
 "C20": dict(
   technique="lockset + condition-variable discipline rules on go/ssa; dataflow of the callback into time.AfterFunc",
   text="Decides the scheduling discipline structurally: debouncer/throttler state only touched under the instance lock (LK1-LK3), Wait in a predicate loop (CV2), no lost wake-up (CV3), grant consumption atomic (AT1). Every wall-clock inequality is explicitly not decided.",
   note="Trusted: time.AfterFunc / Timer.Stop / sync.Cond contracts.",
   ref="DESIGN.md section 4 C20"),
 "C07": dict(
   technique="who-may-call, access-path origin agreement (accessors inlined), path rules and a local shape analysis (symbolic heap with lazy materialisation and exhaustive alias case split) on go/ssa over cache/lrucache.go",
   text="Decides the structure that ties map, list and results together: exactly Add, Get and GetOldest reach the list's move primitive and move the entry they found (AG1); in every remover the key deleted from the map, the node unlinked from the list and the key/value returned derive from one origin, oldest = root.prev, youngest = root.next, front operations anchor at &root (AG7); map and list change in pairs; every path of Add after the insertion reaches count > size whose true edge evicts through RemoveOldest and returns its result (PT2/PT3); NewLRU rejects size <= 0 and size is written nowhere else; list length bookkeeping (AG4); SH1 local shape rule: for every aliasing of the parameters, their neighbours and the sentinel (57 cases, enumerated by materialisation over a symbolic heap) moveAfter, addAfter and remove leave exactly the promised splice of the circular doubly linked list and newLRUList links the sentinel to itself. The recency order of concrete histories is not decided.",
   note="Trusted: go/ssa; access paths are compared syntactically after inlining pure accessors, with a no-intervening-list-write side condition per rule.",
   ref="DESIGN.md section 3 E7, section 4 C07"),
 "C09": dict(
   technique="flag-consulted-by-every-reader, descent-direction agreement and counter-discipline rules (edge dominance, edge-cut reachability, finite order atoms) on go/ssa over trie/trie.go",
   text="Decides necessary conditions of the map/prefix behaviour: every site that reports a key tests isValid on the node it reports and isValid is written only at the key's last byte (AG2); the key counter is incremented only through an absence edge of a lookup of the inserted key and no insertion bypasses it except through isValid true (AG4); put/get/LongestPrefix agree on left/right/mid for smaller/greater/equal bytes and on depth advance, collect visits left, self, mid, right (AG3); the stored byte is appended unaltered, never through an integer-to-string conversion, and LongestPrefix returns query[:length] (AG8/PV1); every key index is dominated by a length test, empty input is rejected, lookups do not write (PT3/EF1). Results for concrete key sets are not decided.",
   note="Trusted: go/ssa; get's (nil, err)/(node, nil) contract; Put's non-empty-key precondition.",
   ref="DESIGN.md section 3 E7, section 4 C09"),
 "C10": dict(
   technique="flag-consulted-by-every-reader, counter-discipline (edge-cut reachability) and descent-agreement rules on go/ssa over btree/btree.go",
   text="Decides necessary conditions of the ordered-map behaviour: search reports (value, true) and traverse invokes the visitor only under isRemoved == false of the entry reported, the tombstone is written only by insert's overwrite branch (AG2); Put's increment is reachable only through the 'lookup of the inserted key found nothing' edge and no insertion bypasses it, Remove's decrement and tombstoning only through a live-entry edge (AG4); search and insert descend into children[i].next exactly under (i+1 == m || key < children[i+1].key) with height-1, an equal leaf key can never reach the shifting insertion (AG3); height grows by one only in Put on a root split together with the root replacement (PT3); Get/Size/IsEmpty/Height are projections. Sortedness, split arithmetic, the height bound and Traverse order are not decided.",
   note="Trusted: go/ssa; gogu.Equal is ==, gogu.Less is <; missing unexported helpers degrade to undecided obligations (VIOLATION) instead of a checker failure.",
   ref="DESIGN.md section 3 E7, section 4 C10"),
 "C04": dict(
   technique="descent-direction agreement over comparator outcomes, no-subtree-lost path rule, successor pairing, counter discipline and state inventory on go/ssa over bstree/bstree.go",
   text="Decides necessary conditions of the ordered-map behaviour: get, upsert and delete take Left exactly on Compare outcome 1, Right on -1 and hit otherwise, traverse emits Left, node, Right (AG3); every return of delete hands back n, or a child while the other is known nil, or nil while both are known nil, and recursion results are stored back into the field descended through (PT3 no subtree lost); the two-child case copies key and value of one min() node of the right subtree and deletes that key there (PV2); each size increment sits with linking NewNode(key,val) into a slot known nil, the decrement must follow err == nil (AG4; one known finding); values/links are written only at nodes reached by the descent (AG1); the container has no state beyond {mu, comp, root, size} (SI1). Results of concrete histories are not decided.",
   note="Trusted: go/ssa; Compare's contract (1 iff comp(a,b), -1 iff comp(b,a)); strict-ordering comparator. Known finding: Delete decrements size for absent keys (pinned Example requires it).",
   ref="DESIGN.md section 3 E7, section 4 C04"),
 "C05": dict(
   technique="end-agreement rules over access paths, non-empty-guard dominance, call counting, counter discipline, who-may-call and state inventory on go/ssa over queue/*.go and the list primitives used",
   text="Slice-backed Queue: Enqueue stores append(items, item) exactly once on every path, Dequeue returns items[0] and stores items[1:], Peek reads items[0], all under the non-empty guard; the empty path returns the zero value and an error and writes nothing; Search is a full forward scan; Size is len(items); Clear stores nil; nothing else writes items - with Go's append/re-slice semantics this is FIFO behaviour of the slice-backed queue. Linked LQueue: n incremented exactly once with one Append(item), decremented once with one Shift only where n is known positive, empty path untouched; Peek reads First; positional list primitives never compare element values, observers write nothing; no untracked state (SI1). The order in which DList.Append/Shift themselves link nodes is not decided.",
   note="Trusted: go/ssa, Go append/re-slice semantics; locking is C01/C02.",
   ref="DESIGN.md section 3 E7 (AG6, AG4), section 4 C05/C06"),
 "C06": dict(
   technique="end-agreement rules over access paths, non-empty-guard dominance, call counting, counter discipline, who-may-call and state inventory on go/ssa over stack/*.go and the list primitives used",
   text="Slice-backed Stack: Push stores append(items, item) exactly once on every path, Pop returns items[len-1] and stores items[:len-1], Peek reads items[len-1], all under the non-empty guard; the empty path returns the zero value and writes nothing; Search is a full forward scan; Size is len(items); nothing else writes items - with Go's append/re-slice semantics this is LIFO behaviour of the slice-backed stack. Linked LStack: n incremented exactly once with one Append(item), decremented at most once only where n is known positive, with one list Pop; Peek reads Last; positional list primitives never compare element values, observers write nothing; no untracked state (SI1). The value handed back by the linked variant's Pop is not decided.",
   note="Trusted: go/ssa, Go append/re-slice semantics; locking is C01/C02. Known finding: list.(*DList).Pop returns the node before the one it unlinks (pinned Example_linkedList expects that value).",
   ref="DESIGN.md section 3 E7 (AG6, AG4), section 4 C05/C06"),
 "C13": dict(
   technique="canonical-scan recognition (PT5), guard dominance (PT6), strictness/direction of update comparisons, finite order abstraction of comparison-only functions (OD2 decision tables over every order type, dense orders included), piecewise-affine index table with a statically checked premise (BD2, Nth), helper hygiene (GS1/GS2) on go/ssa",
   text="Decides: IndexOf/FindIndex/Contains/Some/Every are complete forward scans and LastIndexOf/FindLastIndex complete backward scans whose match edge returns at once and whose default result is returned only through the loop exit; FindAll stores (index, element) of one iteration under the predicate; extremum functions seed with s[0] only under len > 0, scan forward, update on the strict comparison their name promises with the element just read and return the accumulator; ByKey variants read map values only under the comma-ok presence test; Sum/SumBy/Mean add each element exactly once in a complete scan; Clamp, InRange, Abs, Compare, Less, Equal are comparison-only and their decision tables over every order type of the arguments equal the defining inequalities (exhaustive, holds for all inputs); helpers use no mutable package-level state and start no goroutines. Numeric values (overflow, rounding) are not decided.",
   note="Trusted: go/ssa; user callbacks are pure; OD2 first checks that the body is comparison-only (else undecided).",
   ref="DESIGN.md section 3 E4/E6, section 4 C13"),
 "C15": dict(
   technique="sibling-same-callee and callee-of-each-appended-rune rules, write-order rules, transposition-only rule, concatenation-shape and guard-dominance rules, piecewise-affine selection table with a statically checked premise (BD2, Substr), helper hygiene on go/ssa over string.go",
   text="Decides: ToLower/ToUpper/Capitalize range rune-wise and append for every rune exactly unicode.ToLower/ToUpper of that rune (upper at offset 0 for Capitalize) and convert back; SnakeCase/KebabCase are one helper call differing only in the delimiter; Wrap writes token, payload, token and WrapAllRune does so per rune; ReverseStr converts to []rune, only swaps in a two-pointer loop and converts back; Pad functions return the input unchanged under size <= len (or an empty token), cut the repeated token only on paths that excluded the empty token (a cut of strings.Repeat(\"\", k) panics) and otherwise concatenate in the documented order with the pad cut to exactly the missing length; SplitAtIndex returns on every path two complementary parts; Unwrap strips exactly len(token) from both ends only under HasPrefix, HasSuffix and len >= 2*len(token); Substr (rule BD2): premise decided on the SSA - Substr and the module functions it calls are loop-free, combine integers only by + - and comparisons, and compare/slice with affine forms of (len, offset, length) of small coefficients - and under it the outcome (byte range returned, empty string, or out-of-range slice bounds = panic) is tabulated by the checker's own evaluator over len 0..6 x offset, length -9..9 (thorough: doubled ranges, same verdicts required) against the statement's selection rule; premise failure is undecided; no mutable globals, no goroutines. The regexp-based case converters are not decided.",
   note="Trusted: go/ssa; contracts of unicode/strings functions used.",
   ref="DESIGN.md section 3 E7 (AG5), section 4 C15"),
 "C11": dict(
   technique="provenance of appended values, dominance by not-seen edges, complete-scan recognition, like-with-like typing of comparisons (element vs image), error-discipline rules, helper hygiene on go/ssa over slice.go",
   text="Decides: every value appended to a result is the element just read from the first input in one complete forward scan (nothing foreign, first-occurrence order); appends happen only on the 'not yet seen' edge of a local seen-map lookup updated with the same key on the same path, or of Contains(result, element); Without/Difference(By) compare the element with every entry of the exclusion list and the equality edge cannot reach the append; comparisons and membership tests are like with like; Intersection(By) accept exactly when the scan j = 1..len(params) over the other inputs ran to completion with membership of the element in params[j]; Duplicate(WithIndex) emit only under count > 1; Union/Flatten propagate the flattening error, malformed nesting reaches an error return, the flatten accumulator grows by appends only; no mutable globals, no goroutines. Exact membership for concrete inputs is not decided.",
   note="Trusted: go/ssa; Contains is the quantifier checked by C13; callbacks pure.",
   ref="DESIGN.md section 3 E3/E5, section 4 C11"),
 "C14": dict(
   technique="pairing of key/value access paths relative to the iteration tuple (PV2), exact per-element decision sets by edge dominance (PV3), sibling agreement (AG5), must-pass-through sort before selection, loop-depth once-rules, helper hygiene on go/ssa over map.go/filter.go",
   text="Decides: every site that puts an entry into a result pairs key and value as promised - MapValues (k, fn(v)), MapKeys (fn(k,v), v), Invert (m[x], x), Pick/PickBy (k, collection[k]), FilterMap/FindByKey/MapUnique (k, v), SliceToMap (s1[i], s2[i]) under equal lengths, Keys/Values/MapCollection one cell per iteration - under exactly the per-element decision promised (fn(v), fn(k), fn(k,v), Contains(keys,k), not-seen) and no other; Pick/Omit and PickBy/OmitBy decide on the same call with opposite action; 'one entry' functions leave the loop after emitting, collection filters and PartitionMap emit once per input map in input order by append only; Find selects from keys that passed sort.Slice with a < comparator on that slice, and no function with a definite result leaves a range over a map early; quantifiers return at once on the deciding edge and their default after the whole range; no goroutines, no mutable globals. Choices the statement leaves open and duplicate values are not decided.",
   note="Trusted: go/ssa; Contains checked by C13; callbacks pure; table of promised pairings frozen in props/c14.go.",
   ref="DESIGN.md section 3 E3, section 4 C14"),
 "C12": dict(
   technique="canonical-scan recognition with exactly-once callback rules (PT5/PT1), exact per-element decision sets for placements (PV3), transposition-only rules (PV4), transposed-index pairing, guard dominance for windows, helper hygiene on go/ssa over slice.go/filter.go/shuffle.go",
   text="Decides: Map/ForEach/Reduce scan forward and ForEachRight backward, completely, calling the callback exactly once per iteration on the element just read (Map stores fn(v) at v's index, Reduce threads the accumulator); Filter, DropWhile, DropRightWhile, Partition place the element just read under exactly the promised decision and mapByIndex/GroupBy appends origSlice[i] to the group of key i; Reject splices s[:i]+s[i+1:] exactly under fn(s[i]) and re-examines i; Merge appends s then each further slice in argument order onto fresh storage; Flatten's accumulator grows by appends only and malformed nesting is an error; Shuffle copies the whole input and then only swaps cells of the copy, Reverse/ReverseStr only swap in a two-pointer walk; Zip/Unzip store result[a][b] = slices[b][a] with both indices scanning completely behind the shape rejections; Chunk appends only non-empty windows starting at multiples of size and rejects size <= 0; Drop re-slices only under Abs(n) < len on the promised side. Window arithmetic beyond that, uniformity and involution are not decided.",
   note="Trusted: go/ssa; Go append/copy/re-slice semantics; callbacks pure.",
   ref="DESIGN.md section 3 E3/E4, section 4 C12"),
 "C03": dict(
   technique="transposition-only (permutation) rules, effect rules (no write / must write), must-store-on-every-path, linear-form algebra of the implicit-tree index maps, symbolic length offset tracking for re-sift bounds, structure rules of sift-up/sift-down on go/ssa over heap/*.go",
   text="Decides conservation and structure: FromSlice, Convert, Sort, moveUp, moveDown move elements only through swap (they permute); Push appends each argument exactly once and sifts the new slot up; Pop reads the root under the non-empty guard before overwriting it with the last element, shortens by exactly one and re-sifts slot 0; Delete shortens by one only where getIndex found the value and reports absence otherwise without writing; Merge builds a fresh heap by Push of the elements and writes neither input, Meld empties both on every path; Convert stores the new comparator on every path before re-heapifying bottom-up; no element ordering except through the comparator; parent inverts leftChild/rightChild as linear forms and FromSlice's inlined children agree; moveDown compares the right child with the better of node and left child, recurses at the slot it swapped with and reads children only below n; a re-sift bound never provably exceeds the live length (BD1); the slot filled with a foreign element is the slot re-sifted (RS1; one known finding in Delete); no untracked state. The heap-order invariant after arbitrary histories and Sort's direction are not decided.",
   note="Trusted: go/ssa; strict-ordering comparator; locking is C01/C02. Known finding: Delete re-sifts slot 0 instead of the victim's slot (pinned TestHeap_MaxHeap asserts the resulting layout).",
   ref="DESIGN.md section 3 E2/E7 (AG9, BD1), section 4 C03"),
}

# Rules added after the entries above were written (seed rounds 2-3, refactoring batches, mutation experiment).
ADDENDA = {
 "C01": " Also: a state slot accessed through sync/atomic is synchronised separately (AT3).",
 "C02": " Also: re-acquisition, balance and escape rules (LK2/LK3/LK5) and AT3.",
 "C03": " Also: who may write, overwrite a slot of, re-sift or hand out h.data (AG1); getIndex returns the index it compared equal; Push returns only after every argument was pushed; Delete refuses only an absent value or an empty heap; the bottom-up pass of FromSlice/Convert starts at or above the last internal node; sift functions are recognised in recursive and loop form.",
 "C04": " Also: delete hands n back only after a recursive delete below it whose verdict it returns; each of the four shapes of the key-holding node (Left/Right nil or not) reaches only its own return and the successor lookup needs a right subtree; Delete's verdict comes from the descent; get in recursive or loop form.",
 "C05": " Also: no element of items is overwritten in place and items is not handed to other functions; the linked list is changed only by the insertion, the removal and Clear (judged by the callee's effect: DList.Each rewrites the head); the linked Search answers what Find found; state inventory over list.DList. The drained state of the linked queue (rules PH1/PH2; premise decided on the types: list.DList embeds its head node by value, so the list always keeps one node): Enqueue may call list.Append only where n before the increment is known positive (the test of n is evaluated flow-sensitively against the n++ of the same function) and must store the item into the list's own head node where it is zero, exactly one of the two on every path; Peek and Search may consult the list only where n is known positive and answer the zero value / false otherwise. This supersedes 'the delivery order of the linked variant is not decided' for the drain-and-refill and Clear scenarios; the order inside DList.Append/Shift themselves is still not decided.",
 "C06": " Also: no element of items is overwritten in place and items is not handed to other functions; the linked list is changed only by the insertion, the removal and Clear (by effect); the linked Search answers what Find found; state inventory over list.DList. The drained state of the linked stack (rules PH1/PH2, as for the queue): Push may call list.Append only where n before the increment is known positive and must store the item into the list's own head node where it is zero; Peek and Search consult the list only where n is known positive. RS2: on the path where list.(*DList).Pop unlinks the last node the node handed back must be the one unlinked (a copy of *x.next taken before `x.next = nil`, or that pointer), and on the single-node path a copy of the head. Known finding (not repaired, the pinned Example_linkedList expects it): DList.Pop hands back the node before the one it unlinks.",
 "C07": " Also: a node's key is written only where the node is created and its value there and in Add; thin wrappers (moveFront, addFront, removeLast) are looked through whether or not they exist.",
 "C08": " Also: the store primitive is reached only through Set's liveness test, add and Update (AG1); a rejected store leaves no trace (ER5); predicate closures (maps.DeleteFunc) are decided like the loop they replace.",
 "C09": " Also: completeness of AG2 (a found terminal node is always reported); put's terminal branch stores the caller's value; key/value of a node are written only by put; Keys/StartsWith empty the shared queue before collecting.",
 "C10": " Also: split conservation (entry count halved, upper half copied unconditionally), complete entry scans that end only through their own test, who-writes rules for entries and root.",
 "C11": " Also: Flatten/Union report an error only for an unsupported value or a failed recursion; reachability and dominance are decided through found-flags (jump threading).",
 "C12": " Also: the cells Shuffle swaps lie inside the copy (BD1); side paths around a scan through helpers are reported.",
 "C13": " Also (supersedes 'Range not decided'): everything Range decides before its first iteration - rejection, which loop, start, bound, amount moved - is tabulated over representatives of every order type of its arguments in [-3,3] against the statement, the loops append one value derived from the counter per iteration, RangeRight passes arguments and error through and reverses; the running extremum is seeded with s[0] (ByKey: with the first map's value, updated with the compared value, selector k == key); comparison-only helpers called from comparison-only functions are interpreted in turn. Strictness is required only under a key function. Nth (supersedes 'Nth not decided', rule BD2): premise decided on the SSA - Nth, Abs and Bound.Enclose are loop-free, combine integers only by + - and comparisons, and compare/index with forms a*len+b*nth+c of small coefficients - and under it the outcome (element index returned, error, or out-of-range index = panic) is tabulated by the checker's own evaluator over len 0..8 x nth -11..11, representatives of every cell of the arrangement, against s[nth] / s[len+nth] / error, never a panic; premise failure is undecided. The OD2 and Range tables run in half units because the functions are generic over floats (0 < x < 1 is represented).",
 "C14": " Also: FindKey returns the key of the entry on the edge where fn(v) held (per return alternative).",
 "C16": " Also: OW4 no helper re-slices an argument up to its capacity and writes or returns that part; GS1/GS2 no mutable package-level state (pools, scratch buffers), no goroutines.",
 "C17": " Also: the flight group is used through Do only (Forget/DoChan are reported); Set's liveness test (an expired, unswept entry must be replaceable).",
 "C18": " Also: Before runs its callback only where the decremented counter is known >= 0 and After only where the counter is known <= 0 (threshold side); without a fresh run Before/Once return Val() of the looked-up item; Retry rejects only a negative count; the cache below agrees on 'expired' and Set stores over expired entries.",
 "C20": " Also: GG2 a permission is consumed and Next answers true only under !stop tested after the last cond.Wait; GG3 a permission is granted at once only after the period elapsed and deferred only inside it, in trailing mode, announced after duration - elapsed; CV4 only Call and Cancel signal the condition variable.",
}
NORMALISATION_NOTE = " Before every analysis a normalisation pass brings a changed tree back to the confirmed function inventory without changing behaviour (new unexported helpers inlined, renamed helpers/parameters/fields/types restored, vanished helpers re-declared, pure helpers inlined at new call edges; identity on the unchanged tree; DESIGN.md section 13). Constructs outside the accepted forms, lost anchors and aborted rule evaluations are reported as undecided (exit 1, VIOLATION)."

NOT_YET = "check not built yet (static-analysis engines under construction; see DESIGN.md section 7)"
NA = {
 "C19": "sequence semantics of by-value-head linked lists need a shape analysis (list-segment abstraction); nothing of that kind is installed or buildable here and weaker structural proxies false-alarm on today's test-passing code (DESIGN.md section 4 C19)",
}

def main():
    props=[json.loads(l) for l in open('/verif/properties.jsonl')]
    checks=[]; na=[]
    for p in props:
        i=p["id"]
        if i in CLAIMED:
            c=CLAIMED[i]
            checks.append({
              "property_id":i,
              "quick_cmd":"./check %s quick"%i,
              "thorough_cmd":"./check %s thorough"%i,
              "evidence_file":"/verif/evidence/%s.json"%i,
              "replay_cmd_template":"/verif/bin/gogucheck -property %s -replay {path}"%i,
              "engine":"gogucheck",
              "level_claimed":{"category":"other","text":c["text"]+ADDENDA.get(i,""),"design_ref":c["ref"]+", sections 9, 11, 13, 14"},
              "level_note":c["note"],
              "technique":c["technique"],
            })
        else:
            na.append({"property_id":i,"reason":NA.get(i,NOT_YET)})
    m={
     "version":1,
     "setup_cmd":"cd /verif/checker && GOFLAGS=-mod=mod GOPROXY=off GOSUMDB=off GOTOOLCHAIN=local CGO_ENABLED=0 go build -o /verif/bin/gogucheck ./cmd/gogucheck",
     "hooks":{"guard":"verif","enable":"none needed: static analysis reads the unmodified source; no hook commits exist","baseline_off_cmd":"cd /repo && GOFLAGS=-mod=mod GOPROXY=off go test -vet=off -count=1 ./...","source_commits":[],"add_only":True},
     "engines":[{"name":"gogucheck","path":"/verif/checker","serves_properties":sorted(CLAIMED),"kind_free_text":"custom static analyser over go/packages + go/ssa (x/tools v0.29.0): lockset/ownership abstract interpretation, path rules on the SSA CFG, provenance/effect dataflow, finite order abstraction, sibling-agreement rules"}],
     "checks":checks,
     "notes":"Static analysis only (no execution of the library, no solver). Every check loads /repo's current working tree, evaluates repo-specific structural rules, writes evidence/<id>.json and prints VIOLATION on an undischarged obligation that known_findings.json does not list. thorough = quick + self-validation of the rules against seeded source variants applied through a go/packages overlay (nothing is written to /repo), the kept sub-agent changes of /verif/seeded and the behaviour-preserving refactorings of /verif/refactorings (informational)." + NORMALISATION_NOTE,
     "not_applicable":na,
    }
    json.dump(m,open('/verif/MANIFEST.json','w'),indent=1)
    print("checks:",[c["property_id"] for c in checks]," na:",[n["property_id"] for n in na])
main()
