#!/usr/bin/env python3
"""tools/confirmseed.py <worktree> <k> : confirm a sub-agent's seeded change in ITS scratch worktree:
 (1) with the patch the whole existing suite passes, (2) the demo fails with the patch, (3) the demo passes without it.
Uses meta.json's "demo" command; the without-patch run is the same command minus the `git apply`."""
import json, os, re, subprocess, sys
wt, k = sys.argv[1], sys.argv[2]
env = dict(os.environ, GOFLAGS='-mod=mod', GOPROXY='off', GOSUMDB='off', GOTOOLCHAIN='local')
env.pop('GOWORK', None)
sd = os.path.join(wt, 'seeded', k)
m = json.load(open(os.path.join(sd, 'meta.json')))
demo = m['demo']
if isinstance(demo, list): demo = ' && '.join(demo)
# free-form remarks after the command: '   (package trie ...)' or ' # comment'
demo = re.sub(r'\s{2,}\(.*$', '', demo, flags=re.S)
demo = re.sub(r'\s+#\s.*$', '', demo, flags=re.S)
def sh(cmd, timeout=1500):
    p = subprocess.run(['bash', '-c', cmd], cwd=wt, env=env, capture_output=True, text=True, timeout=timeout)
    return p.returncode, p.stdout + p.stderr
def clean():
    sh('git checkout -- . ; git clean -fdq -e seeded')
clean()
# (1) suite with the patch
rc, out = sh('git apply seeded/%s/patch.diff && go build $(go list ./... | grep -v /seeded) && go test -vet=off -count=1 $(go list ./... | grep -v /seeded) 2>&1 | grep -v "^ok\|no test files"' % k)
bad = [l for l in out.splitlines() if l.startswith('FAIL') or l.startswith('--- FAIL') or 'panic:' in l]
flaky = ('Example_after', 'TestFunc_Debounce', 'Example_expirationTime', 'TestBSTree_Concurrency')
real = [l for l in bad if l.startswith('--- FAIL') and not any(f in l for f in flaky)]
suite_ok = not real and 'cannot' not in out and 'build failed' not in out
print('suite-with-patch:', 'PASS' if suite_ok else 'FAIL', '|', ' / '.join(bad[:4]))
clean()
# (2) demo with the patch
has_apply = re.search(r'git (-C \S+ )?apply [^;&]*patch\.diff', demo) is not None
rc, out_with = sh(demo if has_apply else 'git apply seeded/%s/patch.diff && %s' % (k, re.sub(r'^cd \S+ && ', '', demo)))
clean()
# (3) demo without the patch
nopatch = re.sub(r'git (-C \S+ )?apply [^;&]*patch\.diff\s*(&&|;)', '', demo) if has_apply else demo
rc, out_wo = sh(nopatch)
clean()
def verdict(o):
    if re.search(r'^(--- FAIL|FAIL|panic:)', o, re.M) or 'DEMO FAIL' in o: return 'FAIL'
    if re.search(r'^ok\s', o, re.M) or 'PASS' in o: return 'PASS'
    return 'UNKNOWN'
vw, vo = verdict(out_with), verdict(out_wo)
print('demo-with-patch:', vw, '|', ' / '.join([l for l in out_with.splitlines() if 'FAIL' in l or 'want' in l][:3])[:300])
print('demo-without-patch:', vo)
ok = suite_ok and vw == 'FAIL' and vo == 'PASS'
print('CONFIRMED' if ok else 'NOT-CONFIRMED')
if not ok:
    print('--- with:\n', out_with[-1500:], '\n--- without:\n', out_wo[-1500:])
sys.exit(0 if ok else 1)
