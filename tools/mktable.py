#!/usr/bin/env python3
"""tools/mktable.py: regenerate the per-property table of DESIGN.md section 10 from the committed evidence
(run every ./check CNN quick first), the variants of checker/mutants and the kept seeds."""
import json, os, re, subprocess, glob
rows = []
self = subprocess.run(['/verif/bin/gogucheck', '-selftest', '-repo', '/repo'], capture_output=True, text=True).stdout
var = {}
for l in self.splitlines():
    m = re.match(r'^(KILLED|CLEAN|NA|SURVIVED|FALSE-ALARM)\s+(C\d\d)-', l)
    if m: var[m.group(2)] = var.get(m.group(2), 0) + 1
unrep = {'C14-5', 'C15-5'}
for i in list(range(1, 19)) + [20]:
    pid = 'C%02d' % i
    ev = json.load(open('/verif/evidence/%s.json' % pid))
    cov = ev['coverage']
    # run the quick check to get rule counts
    out = subprocess.run(['/verif/check', pid, 'quick'], capture_output=True, text=True, cwd='/verif').stdout
    m = re.search(r'obligations=(\d+) discharged=(\d+) known=(\d+) new=(\d+) rules=(\S+)', out)
    ob, di, kn = int(m.group(1)), int(m.group(2)), int(m.group(3))
    rules = [r.split(':') for r in m.group(5).split(',')]
    rules = sorted([(r, int(n)) for r, n in rules if int(n) > 0], key=lambda x: (-x[1], x[0]))
    seeds = [os.path.basename(d) for d in glob.glob('/verif/seeded/%s-*' % pid)]
    rep = len([s for s in seeds if s not in unrep])
    disc = '%d (%d%s)' % (ob, di, ' + %d known' % kn if kn else '')
    rows.append('| %s | %s | %s | %d | %d/%d |' % (pid, disc, ', '.join('%s %d' % r for r in rules), var.get(pid, 0), rep, len(seeds)))
    if i == 18:
        rows.append('| C19 | not applicable | - | - | - |')
print('\n'.join(rows))
