#!/usr/bin/env python3
"""tools/seedmatrix.py [mink]: markdown rows (seed | change | reported by) for the kept seeds with index >= mink"""
import json, os, re, sys
mink = int(sys.argv[1]) if len(sys.argv) > 1 else 1
rows = []
for d in sorted(os.listdir('/verif/seeded'), key=lambda s: (s.split('-')[0], int(s.split('-')[1]))):
    k = int(d.split('-')[1])
    if k < mink:
        continue
    m = json.load(open(f'/verif/seeded/{d}/meta.json'))
    s = ' '.join(m.get('summary', '').split())
    first = re.split(r'(?<=[.])\s', s)[0]
    if len(first) > 230:
        first = first[:227] + '...'
    c = m.get('caught_by', '?')
    rows.append(f"| {d} | {first.replace('|','/')} | {c.replace('|','/')} |")
print('\n'.join(rows))
