#!/usr/bin/env python3
"""tools/addfinding.py <property> <rule> <function> <object> <status known|fixed> <commit or -> <what...>"""
import json, sys
prop, rule, fn, obj, status, commit = sys.argv[1:7]
what = ' '.join(sys.argv[7:])
p = '/verif/known_findings.json'
d = json.load(open(p))
e = {"property": prop, "rule": rule, "function": fn, "object": obj, "status": status}
if commit != '-':
    e["commit"] = commit
if status == 'fixed':
    e["what"] = "fixed: property=%s %s %s" % (prop, commit, what)
else:
    e["what"] = what
for x in d["findings"]:
    if (x["property"], x["rule"], x["function"], x["object"]) == (prop, rule, fn, obj):
        x.update(e); break
else:
    d["findings"].append(e)
json.dump(d, open(p, 'w'), indent=1)
print("ok", len(d["findings"]))
