#!/usr/bin/env python3
"""tools/mutrun.py <mutdir> <workers>: for every mutant of tools/mutgen: compile, run the pinned suite through -overlay,
record 'nocompile' / 'killed' / 'survived' in <mutdir>/results.jsonl (resumable)."""
import json, os, subprocess, sys, concurrent.futures as cf
mutdir, workers = sys.argv[1], int(sys.argv[2])
env = dict(os.environ, GOFLAGS='-mod=mod', GOPROXY='off', GOSUMDB='off', GOTOOLCHAIN='local')
env.pop('GOWORK', None)
muts = [json.loads(l) for l in open(os.path.join(mutdir, 'index.jsonl'))]
done = {}
rp = os.path.join(mutdir, 'results.jsonl')
if os.path.exists(rp):
    for l in open(rp):
        r = json.loads(l); done[r['id']] = r
def run(m):
    d = os.path.join(mutdir, '%05d' % m['id'])
    ov = os.path.join(d, 'overlay.json')
    json.dump({'Replace': {os.path.join('/repo', m['file']): os.path.join(d, m['file'])}}, open(ov, 'w'))
    b = subprocess.run(['go', 'build', '-overlay', ov, './...'], cwd='/repo', env=env, capture_output=True, text=True)
    if b.returncode != 0:
        return dict(id=m['id'], status='nocompile')
    b = subprocess.run(['go', 'vet', '-overlay', ov, './...'], cwd='/repo', env=env, capture_output=True, text=True) if False else None
    try:
        t = subprocess.run(['go', 'test', '-overlay', ov, '-vet=off', '-count=1', '-timeout', '120s', './...'], cwd='/repo', env=env, capture_output=True, text=True, timeout=400)
    except subprocess.TimeoutExpired:
        return dict(id=m['id'], status='killed', why='timeout')
    if t.returncode == 0:
        return dict(id=m['id'], status='survived')
    fails = [l for l in t.stdout.splitlines() if l.startswith('--- FAIL') or l.startswith('FAIL') or 'panic:' in l]
    if '[build failed]' in t.stdout or 'cannot use' in t.stdout:
        return dict(id=m['id'], status='nocompile', why='test build')
    return dict(id=m['id'], status='killed', why=' / '.join(fails[:3])[:200])
todo = [m for m in muts if m['id'] not in done]
print('todo', len(todo), flush=True)
with open(rp, 'a') as out, cf.ThreadPoolExecutor(workers) as ex:
    for i, r in enumerate(ex.map(run, todo)):
        out.write(json.dumps(r) + '\n'); out.flush()
        if i % 100 == 0:
            print(i, flush=True)
print('done', flush=True)
