#!/bin/bash
# tools/tryrefactor.sh <patch> : apply a behaviour-preserving refactoring to /repo, run every check (quick), report the ones that alarm, undo.
P="$1"
git -C /repo apply "$P" || { echo "APPLY-FAIL $P"; exit 9; }
out=$(mktemp -d)
for id in C01 C02 C03 C04 C05 C06 C07 C08 C09 C10 C11 C12 C13 C14 C15 C16 C17 C18 C20; do
  ( /verif/bin/gogucheck -property $id -tier quick -repo /repo -out $out -known /verif/known_findings.json > $out/$id.log 2>&1; echo $? > $out/$id.rc ) &
done
wait
bad=""
for id in C01 C02 C03 C04 C05 C06 C07 C08 C09 C10 C11 C12 C13 C14 C15 C16 C17 C18 C20; do
  rc=$(cat $out/$id.rc)
  if [ "$rc" != "0" ]; then bad="$bad $id"; echo "--- $id (exit $rc)"; grep -v "^info\|KNOWN-FINDING\|^PASS\|^FAIL\|^VIOLATION\|WARNING" $out/$id.log | head -6; fi
done
rm -rf $out
git -C /repo checkout -- . && git -C /repo clean -fdq
echo "RESULT $(basename $(dirname $(dirname $(dirname $P))))/$(basename $(dirname $P)): ${bad:-silent}"
