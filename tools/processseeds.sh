#!/bin/bash
# tools/processseeds.sh <ID> <worktree> [other property ids...]: run the property's check (and others) against each seed of a worktree and confirm the seed there.
ID="$1"; WT="$2"; shift 2
for k in 1 2 3; do
  echo "=================== $ID seed $k"
  python3 -c "import json;m=json.load(open('$WT/seeded/$k/meta.json'));print('summary:',m.get('summary','')[:300])"
  for p in $ID "$@"; do
    echo "--- vs $p"
    /verif/tools/trypatch.sh $WT/seeded/$k/patch.diff $p 2>&1 | grep -v "WARNING\|KNOWN\|^info" | head -6
  done
  /verif/tools/confirmseed.py $WT $k 2>&1 | grep -v WARNING | tail -4
done
