#!/bin/bash
# tools/trypatch.sh <patch.diff> <property...> : apply a seeded change to /repo, run the checks, undo it.
P="$1"; shift
git -C /repo apply "$P" || { echo "patch does not apply"; exit 9; }
for id in "$@"; do
  /verif/check "$id" quick > /tmp/trypatch.$$.out 2>&1; code=$?
  grep -E "VIOLATION|^PASS|^FAIL|CHECKER-FAILURE" /tmp/trypatch.$$.out | head -5
  grep -E "^[a-z/_]+\.go:[0-9]+  " /tmp/trypatch.$$.out | head -8
  echo "exit=$code"
done
rm -f /tmp/trypatch.$$.out
git -C /repo checkout -- . && git -C /repo clean -fdq && git -C /repo status --short | head -3
