#!/bin/bash
# Runs /repo's pinned suite (no build tag) and compares with /root/.vp/BASELINE.json stable_pass.
export GOFLAGS=-mod=mod GOPROXY=off GOSUMDB=off GOTOOLCHAIN=local; unset GOWORK
REPO="${1:-/repo}"
cd "$REPO" && go test -json -vet=off -count=1 -timeout 25m ./... 2>&1 | python3 -c '
import json,sys
base=set(json.load(open("/root/.vp/BASELINE.json"))["stable_pass"])
res={}
for l in sys.stdin:
    try: e=json.loads(l)
    except Exception: continue
    if e.get("Test") and e.get("Action") in ("pass","fail"):
        res[e["Package"]+"::"+e["Test"]]=e["Action"]
bad=[t for t in sorted(base) if res.get(t)!="pass"]
print("baseline: %d/%d stable tests pass"%(len(base)-len(bad),len(base)))
for t in bad: print("  NOT PASSING:",t,res.get(t))
sys.exit(1 if bad else 0)
'
